#!/bin/bash
# ./run_matrix.sh <plan-file> [tier]   each plan line: <patch> <PROP> [<PROP> ...]; runs try_patch.sh per line
PLAN="$1"; TIER="${2:-quick}"
cd /verif
while read -r patch props; do
  [ -z "$patch" ] && continue
  echo "=== $patch"
  ./try_patch.sh "$patch" "$TIER" $props 2>&1 | grep -a -E "^(suite|C[0-9]+ (FIRES|MACHINERY)|FIRED|SUITE|PATCH|REFUSING)" | cut -c1-300
done < "$PLAN"
