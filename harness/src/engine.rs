//! Exploration engine shared by all properties.
//!
//! A *case* is a byte string (a parser input, a TLV section, or a compact encoding of a value / call
//! history that the property's judge decodes).  A *universe* enumerates cases exhaustively in a
//! deterministic order, split into independent *units* that are distributed over a rayon pool.  The
//! property's *judge* runs the real `ppp` code on the case, compares it with the reference model and
//! records what it saw in an [`Acc`].  Nothing here samples: every case of every unit is judged unless
//! the wall-clock cap expires, in which case the universe is reported as not completed.

use rayon::prelude::*;
use serde_json::{json, Value};
use std::collections::{BTreeMap, HashMap};
use std::sync::atomic::{AtomicBool, AtomicPtr, AtomicU64, AtomicUsize, Ordering};
use std::sync::Mutex;
use std::time::{Duration, Instant};

#[derive(Copy, Clone, Debug, PartialEq)]
pub enum Tier {
    Quick,
    Thorough,
}

impl Tier {
    pub fn name(self) -> &'static str {
        match self {
            Tier::Quick => "quick",
            Tier::Thorough => "thorough",
        }
    }
    pub fn pick<T>(self, quick: T, thorough: T) -> T {
        match self {
            Tier::Quick => quick,
            Tier::Thorough => thorough,
        }
    }
}

#[derive(Clone, Debug, PartialEq, Eq, PartialOrd, Ord)]
pub struct Violation {
    /// Stable class of the violation: which clause of the property failed and how.
    pub kind: String,
    /// The case (parser input or encoded value / history).
    pub case: Vec<u8>,
    pub entry: String,
    pub expected: String,
    pub actual: String,
}

/// How many violations per kind are retained (the smallest by (length, bytes): a deterministic choice).
const KEEP_PER_KIND: usize = 12;
/// Cap on hashes collected for the distinct-non-trivial count (global, all workers).
pub static DISTINCT_CAP: AtomicU64 = AtomicU64::new(1 << 25);
static DISTINCT_USED: AtomicU64 = AtomicU64::new(0);

pub fn mix64(mut x: u64) -> u64 {
    x ^= x >> 33;
    x = x.wrapping_mul(0xff51afd7ed558ccd);
    x ^= x >> 33;
    x = x.wrapping_mul(0xc4ceb9fe1a85ec53);
    x ^= x >> 33;
    x
}

pub fn hash64(bytes: &[u8]) -> u64 {
    let mut h: u64 = 0x9e3779b97f4a7c15 ^ (bytes.len() as u64);
    let mut chunks = bytes.chunks_exact(8);
    for c in &mut chunks {
        let v = u64::from_le_bytes([c[0], c[1], c[2], c[3], c[4], c[5], c[6], c[7]]);
        h = mix64(h ^ v).wrapping_add(0x9e3779b97f4a7c15);
    }
    let mut tail = 0u64;
    for (i, b) in chunks.remainder().iter().enumerate() {
        tail |= (*b as u64) << (8 * i);
    }
    mix64(h ^ tail ^ 0xa5a5a5a5)
}

pub struct ClassInfo {
    pub count: u64,
    pub sample: Vec<u8>,
}

/// Per-worker accumulator of everything a judge observes.
pub struct Acc {
    pub states: u64,
    pub evals: u64,
    pub validated: u64,
    pub nontrivial: u64,
    pub hashes: Vec<u64>,
    pub classes: HashMap<(&'static str, &'static str), ClassInfo>,
    pub viols: BTreeMap<String, Vec<Violation>>,
    pub viol_total: u64,
    pub seeded: Option<(u64, Vec<u8>)>,
    pub notes: BTreeMap<String, u64>,
    // current case
    cur: Vec<u8>,
    cur_ptr: *const u8,
    cur_len: usize,
    pub unit: u64,
    pub idx: u64,
    pub seed: u64,
    pub collect: bool,
}

unsafe impl Send for Acc {}

impl Acc {
    pub fn new(seed: u64) -> Acc {
        Acc {
            states: 0,
            evals: 0,
            validated: 0,
            nontrivial: 0,
            hashes: Vec::new(),
            classes: HashMap::new(),
            viols: BTreeMap::new(),
            viol_total: 0,
            seeded: None,
            notes: BTreeMap::new(),
            cur: Vec::new(),
            cur_ptr: std::ptr::null(),
            cur_len: 0,
            unit: 0,
            idx: 0,
            seed,
            collect: true,
        }
    }

    /// A scratch accumulator used by the shrinker and by replay: nothing is collected but violations.
    pub fn scratch() -> Acc {
        let mut a = Acc::new(0);
        a.collect = false;
        a
    }

    fn case(&self) -> &[u8] {
        if self.cur_ptr.is_null() {
            &self.cur
        } else {
            unsafe { std::slice::from_raw_parts(self.cur_ptr, self.cur_len) }
        }
    }

    /// Called by the explorer before the judge sees `case`.
    pub fn begin(&mut self, case: &[u8]) {
        self.cur_ptr = case.as_ptr();
        self.cur_len = case.len();
        self.states += 1;
        self.idx += 1;
        watchdog_note(case);
        if self.collect {
            let h = mix64(self.seed ^ mix64(self.unit.wrapping_mul(0x100000001b3) ^ self.idx));
            let better = match &self.seeded {
                None => true,
                Some((best, _)) => h < *best,
            };
            if better {
                self.seeded = Some((h, case.to_vec()));
            }
        }
    }

    pub fn end(&mut self) {
        self.cur_ptr = std::ptr::null();
        self.cur_len = 0;
        watchdog_idle();
    }

    /// `n` executions of real `ppp` code happened.
    #[inline]
    pub fn eval(&mut self, n: u64) {
        self.evals += n;
    }

    /// `n` reference-model verdicts were compared with an implementation run.
    #[inline]
    pub fn validated(&mut self, n: u64) {
        self.validated += n;
    }

    /// Record the (reference class, implementation outcome) pair of this case.
    #[inline]
    pub fn class(&mut self, oracle: &'static str, outcome: &'static str) {
        if !self.collect {
            return;
        }
        let case_ptr = self.cur_ptr;
        let case_len = self.cur_len;
        let e = self.classes.entry((oracle, outcome)).or_insert_with(|| ClassInfo {
            count: 0,
            sample: Vec::new(),
        });
        if e.count == 0 {
            e.sample = if case_ptr.is_null() {
                Vec::new()
            } else {
                let s = unsafe { std::slice::from_raw_parts(case_ptr, case_len) };
                s[..s.len().min(4096)].to_vec()
            };
        } else if case_len < e.sample.len() && !case_ptr.is_null() {
            let s = unsafe { std::slice::from_raw_parts(case_ptr, case_len) };
            e.sample = s.to_vec();
        }
        e.count += 1;
    }

    /// The current case is non-trivial by the property's rule; `key` identifies it for the distinct count.
    #[inline]
    pub fn nontrivial_key(&mut self, key: u64) {
        if !self.collect {
            return;
        }
        self.nontrivial += 1;
        if DISTINCT_USED.fetch_add(1, Ordering::Relaxed) < DISTINCT_CAP.load(Ordering::Relaxed) {
            self.hashes.push(key);
        }
    }

    #[inline]
    pub fn nontrivial(&mut self) {
        if !self.collect {
            return;
        }
        let k = hash64(self.case());
        self.nontrivial_key(k);
    }

    pub fn note(&mut self, what: &str, n: u64) {
        if !self.collect {
            return;
        }
        *self.notes.entry(what.to_string()).or_insert(0) += n;
    }

    /// Report a violation on the current case.
    pub fn violation(&mut self, kind: &str, entry: &str, expected: String, actual: String) {
        let case = self.case().to_vec();
        self.violation_on(kind, entry, case, expected, actual);
    }

    /// Report a violation on a derived case (e.g. a prefix or an extension of the current one).
    pub fn violation_on(&mut self, kind: &str, entry: &str, case: Vec<u8>, expected: String, actual: String) {
        self.viol_total += 1;
        let v = Violation {
            kind: kind.to_string(),
            case,
            entry: entry.to_string(),
            expected,
            actual,
        };
        let list = self.viols.entry(v.kind.clone()).or_default();
        insert_smallest(list, v);
    }

    pub fn merge(mut self, other: Acc) -> Acc {
        self.states += other.states;
        self.evals += other.evals;
        self.validated += other.validated;
        self.nontrivial += other.nontrivial;
        if self.hashes.len() < other.hashes.len() {
            let mut o = other.hashes;
            o.extend_from_slice(&self.hashes);
            self.hashes = o;
        } else {
            self.hashes.extend_from_slice(&other.hashes);
        }
        for (k, v) in other.classes {
            match self.classes.get_mut(&k) {
                None => {
                    self.classes.insert(k, v);
                }
                Some(e) => {
                    e.count += v.count;
                    if (v.sample.len(), &v.sample) < (e.sample.len(), &e.sample) {
                        e.sample = v.sample;
                    }
                }
            }
        }
        for (k, vs) in other.viols {
            let list = self.viols.entry(k).or_default();
            for v in vs {
                insert_smallest(list, v);
            }
        }
        self.viol_total += other.viol_total;
        self.seeded = match (self.seeded.take(), other.seeded) {
            (None, b) => b,
            (a, None) => a,
            (Some(a), Some(b)) => Some(if b.0 < a.0 { b } else { a }),
        };
        for (k, v) in other.notes {
            *self.notes.entry(k).or_insert(0) += v;
        }
        self
    }
}

fn vkey(v: &Violation) -> (usize, &Vec<u8>, &String) {
    (v.case.len(), &v.case, &v.entry)
}

fn insert_smallest(list: &mut Vec<Violation>, v: Violation) {
    if list.iter().any(|x| x.case == v.case && x.entry == v.entry) {
        return;
    }
    if list.len() >= KEEP_PER_KIND {
        // list is kept sorted; drop the candidate if it is not smaller than the largest
        let last = list.last().unwrap();
        if vkey(&v) >= vkey(last) {
            return;
        }
        list.pop();
    }
    let pos = list.binary_search_by(|x| vkey(x).cmp(&vkey(&v))).unwrap_or_else(|p| p);
    list.insert(pos, v);
}

// ---------------------------------------------------------------------------------------------
// Panic capture

thread_local! {
    static LAST_PANIC: std::cell::RefCell<String> = std::cell::RefCell::new(String::new());
}

pub fn install_panic_hook() {
    std::panic::set_hook(Box::new(|info| {
        let msg = if let Some(s) = info.payload().downcast_ref::<&str>() {
            s.to_string()
        } else if let Some(s) = info.payload().downcast_ref::<String>() {
            s.clone()
        } else {
            "<non-string panic payload>".to_string()
        };
        let loc = info
            .location()
            .map(|l| format!("{}:{}", l.file(), l.line()))
            .unwrap_or_default();
        LAST_PANIC.with(|p| *p.borrow_mut() = format!("{} at {}", msg, loc));
        if std::env::var_os("PPP_MC_SHOW_PANICS").is_some() {
            eprintln!("panic: {} at {}", msg, loc);
        }
    }));
}

/// Judge one case.  The judges wrap the library calls they make in `guard`; a panic that still escapes a judge
/// is sorted by where it was raised: inside the library under test (an absolute source path outside the
/// toolchain) it is reported as a violation of the property being checked -- the call the property speaks
/// about returned nothing --, anywhere else it is a bug of this harness and ends the run with exit code 2.
pub fn run_judge(judge: Judge, case: &[u8], acc: &mut Acc) {
    acc.begin(case);
    if std::panic::catch_unwind(std::panic::AssertUnwindSafe(|| judge(case, acc))).is_err() {
        let msg = LAST_PANIC.with(|p| p.borrow().clone());
        if panic_is_in_library(&msg) {
            acc.violation("panic-in-library-call", "a library call made while judging this case", "normal return".into(), msg);
        } else {
            println!("MACHINERY-ERROR: the harness itself panicked while judging {}: {}", escape(&case[..case.len().min(200)]), msg);
            std::process::exit(2);
        }
    }
    acc.end();
}

pub fn last_panic() -> String {
    LAST_PANIC.with(|p| p.borrow().clone())
}

/// `msg` is "<text> at <file>:<line>"; the harness's own files are compiled with relative paths ("src/…"), the
/// toolchain's with "/rustc/…" or "library/…", the path dependency under test with its absolute directory.
pub fn panic_is_in_library(msg: &str) -> bool {
    let loc = msg.rsplit(" at ").next().unwrap_or("");
    loc.starts_with('/') && !loc.starts_with("/rustc/") && !loc.contains("/.cargo/") && !loc.contains("/harness/src/") && !loc.contains("/xcheck/src/")
}

/// Run `f` (which calls into `ppp`), turning an unwind into `Err(message)`.
#[inline]
pub fn guard<T>(f: impl FnOnce() -> T) -> Result<T, String> {
    match std::panic::catch_unwind(std::panic::AssertUnwindSafe(f)) {
        Ok(v) => Ok(v),
        Err(_) => Err(LAST_PANIC.with(|p| p.borrow().clone())),
    }
}

// ---------------------------------------------------------------------------------------------
// Watchdog (no-hang half of C03; a machinery guard for every other property)

struct Slot {
    ptr: AtomicPtr<u8>,
    len: AtomicUsize,
    seq: AtomicU64,
    busy: AtomicBool,
}

const SLOTS: usize = 96;
static WATCH: [Slot; SLOTS] = {
    const S: Slot = Slot {
        ptr: AtomicPtr::new(std::ptr::null_mut()),
        len: AtomicUsize::new(0),
        seq: AtomicU64::new(0),
        busy: AtomicBool::new(false),
    };
    [S; SLOTS]
};
static NEXT_SLOT: AtomicUsize = AtomicUsize::new(0);
thread_local! {
    static MY_SLOT: usize = NEXT_SLOT.fetch_add(1, Ordering::Relaxed) % SLOTS;
}

#[inline]
fn watchdog_note(case: &[u8]) {
    MY_SLOT.with(|s| {
        let slot = &WATCH[*s];
        slot.ptr.store(case.as_ptr() as *mut u8, Ordering::Relaxed);
        slot.len.store(case.len(), Ordering::Relaxed);
        slot.seq.fetch_add(1, Ordering::Relaxed);
        slot.busy.store(true, Ordering::Relaxed);
    });
}

#[inline]
fn watchdog_idle() {
    MY_SLOT.with(|s| WATCH[*s].busy.store(false, Ordering::Relaxed));
}

/// Tell the watchdog that the current thread is legitimately busy with a long step on the same case.
pub fn watchdog_touch() {
    MY_SLOT.with(|s| {
        WATCH[*s].seq.fetch_add(1, Ordering::Relaxed);
    });
}

pub static HANG_LIMIT_MS: AtomicU64 = AtomicU64::new(20_000);

/// Starts the monitor thread.  `on_hang` receives the case a worker has been stuck on.
pub fn start_watchdog(on_hang: impl Fn(Vec<u8>, u64) + Send + 'static) {
    std::thread::spawn(move || {
        let mut last: Vec<(u64, Instant)> = (0..SLOTS).map(|_| (0, Instant::now())).collect();
        loop {
            std::thread::sleep(Duration::from_millis(250));
            let limit = Duration::from_millis(HANG_LIMIT_MS.load(Ordering::Relaxed));
            for (i, slot) in WATCH.iter().enumerate() {
                let seq = slot.seq.load(Ordering::Relaxed);
                if !slot.busy.load(Ordering::Relaxed) || seq != last[i].0 {
                    last[i] = (seq, Instant::now());
                    continue;
                }
                if last[i].1.elapsed() > limit {
                    let ptr = slot.ptr.load(Ordering::Relaxed);
                    let len = slot.len.load(Ordering::Relaxed);
                    // The worker is stuck inside the real code on this very buffer, so it is stable.
                    let case = if ptr.is_null() {
                        Vec::new()
                    } else {
                        unsafe { std::slice::from_raw_parts(ptr, len.min(1 << 17)).to_vec() }
                    };
                    on_hang(case, last[i].1.elapsed().as_millis() as u64);
                    return;
                }
            }
        }
    });
}

// ---------------------------------------------------------------------------------------------
// Universes and the run context

pub trait Universe: Sync {
    fn name(&self) -> String;
    /// Human-readable description of alphabet and bound.
    fn bound(&self) -> Value;
    fn units(&self) -> usize;
    /// Number of roots (baselines / stems) of the exploration tree: transitions = states - roots.
    fn roots(&self) -> u64;
    /// Enumerate every case of unit `u` in a deterministic order.
    fn run_unit(&self, u: usize, f: &mut dyn FnMut(&[u8]));
}

pub type Judge = fn(&[u8], &mut Acc);

#[derive(Clone, Copy, PartialEq)]
pub enum Shrink {
    /// delete bytes / chunks of the case while the same violation kind persists
    Bytes,
    /// the case is an op list (one byte per op after a 1-byte constructor): delete ops
    Ops,
    /// structured encoding: not shrunk
    None,
}

pub struct PropDef {
    pub id: &'static str,
    pub title: &'static str,
    pub judge: Judge,
    pub run: fn(&Run),
    pub shrink: Shrink,
    pub render: fn(&[u8]) -> Value,
    pub rule: &'static str,
    pub assumptions: &'static [&'static str],
}

pub struct UniverseReport {
    pub name: String,
    pub bound: Value,
    pub states: u64,
    pub transitions: u64,
    pub evals: u64,
    pub wall_s: f64,
    pub completed: bool,
}

pub struct Run {
    pub prop: &'static PropDef,
    pub tier: Tier,
    pub seed: u64,
    pub start: Instant,
    pub cap: Duration,
    pub total: Mutex<Option<Acc>>,
    pub reports: Mutex<Vec<UniverseReport>>,
    pub extra: Mutex<BTreeMap<String, Value>>,
    pub transitions: AtomicU64,
    pub profile: String,
}

impl Run {
    pub fn expired(&self) -> bool {
        self.start.elapsed() > self.cap
    }

    pub fn explore(&self, u: &dyn Universe) {
        self.explore_with(u, self.prop.judge)
    }

    pub fn explore_with(&self, u: &dyn Universe, judge: Judge) {
        if let Ok(only) = std::env::var("PPP_MC_ONLY") {
            // debugging aid: restrict a run to the universes whose name contains the given text
            if !u.name().contains(&only) {
                return;
            }
        }
        let t0 = Instant::now();
        let n = u.units();
        let skipped = AtomicU64::new(0);
        let seed = self.seed;
        let acc = (0..n)
            .into_par_iter()
            .fold(
                || Acc::new(seed),
                |mut acc, unit| {
                    if self.expired() {
                        skipped.fetch_add(1, Ordering::Relaxed);
                        return acc;
                    }
                    acc.unit = unit as u64 ^ (hash64(u.name().as_bytes()) << 20);
                    acc.idx = 0;
                    u.run_unit(unit, &mut |case: &[u8]| run_judge(judge, case, &mut acc));
                    acc
                },
            )
            .reduce(|| Acc::new(seed), Acc::merge);
        let states = acc.states;
        let transitions = states.saturating_sub(u.roots().min(states));
        self.transitions.fetch_add(transitions, Ordering::Relaxed);
        self.reports.lock().unwrap().push(UniverseReport {
            name: u.name(),
            bound: u.bound(),
            states,
            transitions,
            evals: acc.evals,
            wall_s: t0.elapsed().as_secs_f64(),
            completed: skipped.load(Ordering::Relaxed) == 0,
        });
        self.absorb(acc);
    }

    /// Merge an accumulator produced by a custom engine (e.g. the BFS).
    pub fn absorb(&self, acc: Acc) {
        let mut t = self.total.lock().unwrap();
        *t = Some(match t.take() {
            None => acc,
            Some(a) => a.merge(acc),
        });
    }

    pub fn report(&self, r: UniverseReport) {
        self.transitions.fetch_add(r.transitions, Ordering::Relaxed);
        self.reports.lock().unwrap().push(r);
    }

    pub fn extra(&self, key: &str, v: Value) {
        self.extra.lock().unwrap().insert(key.to_string(), v);
    }
}

// ---------------------------------------------------------------------------------------------
// Shrinking

/// Does `case` still show a violation of `kind` (through any entry point)?
fn still(judge: Judge, case: &[u8], kind: &str) -> Option<Violation> {
    let mut acc = Acc::scratch();
    run_judge(judge, case, &mut acc);
    acc.viols.remove(kind).and_then(|mut v| {
        // prefer the violation reported on the case itself
        let pos = v.iter().position(|x| x.case == case).unwrap_or(0);
        Some(v.swap_remove(pos))
    })
}

/// Deterministic 1-minimal reduction by deletion (ddmin-style: large chunks first), within a budget.
pub fn shrink(judge: Judge, v: &Violation, mode: Shrink) -> Violation {
    if mode == Shrink::None {
        return v.clone();
    }
    let keep_head = if mode == Shrink::Ops { 1 } else { 0 };
    let t0 = Instant::now();
    let mut best = match still(judge, &v.case, &v.kind) {
        Some(b) => b,
        None => return v.clone(), // derived-case violation (prefix/extension): keep as reported
    };
    if best.case != v.case {
        // the judge reports this kind on a derived case; shrink the original case but keep reporting
        // whatever the judge reports for it
    }
    let mut cur = v.case.clone();
    let mut calls = 0u32;
    let mut progress = true;
    while progress {
        progress = false;
        let mut chunk = (cur.len().saturating_sub(keep_head) / 2).max(1);
        loop {
            let mut i = keep_head;
            while i + chunk <= cur.len() {
                if calls > 60_000 || t0.elapsed() > Duration::from_secs(4) {
                    return best;
                }
                let mut cand = Vec::with_capacity(cur.len() - chunk);
                cand.extend_from_slice(&cur[..i]);
                cand.extend_from_slice(&cur[i + chunk..]);
                calls += 1;
                if let Some(b) = still(judge, &cand, &v.kind) {
                    cur = cand;
                    best = b;
                    progress = true;
                } else {
                    i += chunk;
                }
            }
            if chunk == 1 {
                break;
            }
            chunk /= 2;
        }
    }
    best
}

// ---------------------------------------------------------------------------------------------
// Rendering helpers

pub fn escape(bytes: &[u8]) -> String {
    let mut s = String::new();
    let shown = bytes.len().min(300);
    for &b in &bytes[..shown] {
        match b {
            b'\r' => s.push_str("\\r"),
            b'\n' => s.push_str("\\n"),
            b'\t' => s.push_str("\\t"),
            b'\\' => s.push_str("\\\\"),
            0x20..=0x7e => s.push(b as char),
            _ => s.push_str(&format!("\\x{:02x}", b)),
        }
    }
    if shown < bytes.len() {
        s.push_str(&format!("…(+{} bytes)", bytes.len() - shown));
    }
    s
}

pub fn hex(bytes: &[u8]) -> String {
    let mut s = String::with_capacity(bytes.len() * 2);
    for b in bytes {
        s.push_str(&format!("{:02x}", b));
    }
    s
}

pub fn unhex(s: &str) -> Option<Vec<u8>> {
    if s.len() % 2 != 0 {
        return None;
    }
    (0..s.len() / 2)
        .map(|i| u8::from_str_radix(&s[2 * i..2 * i + 2], 16).ok())
        .collect()
}

pub fn render_bytes(case: &[u8]) -> Value {
    json!({ "text": escape(case), "len": case.len() })
}

/// Count distinct hashes (parallel sort + dedup).
pub fn count_distinct(mut v: Vec<u64>) -> u64 {
    v.par_sort_unstable();
    v.dedup();
    v.len() as u64
}

// ---------------------------------------------------------------------------------------------
// Call-history cases: the properties quantify over inputs, so the result for an input must not depend
// on what the same thread parsed before, nor on whether the buffer is a recycled allocation.  A history
// case is `SEQ_MAGIC ‖ n ‖ (len_hi len_lo bytes)*n`; the judge replays the first n-1 inputs through the real
// entry points *in one reused allocation* (same address, refilled), then judges the last input in that
// same allocation with the property's ordinary oracle.

pub const SEQ_MAGIC: &[u8] = b"\xfe\xfeSEQ\xfe";

pub fn encode_seq(parts: &[&[u8]]) -> Vec<u8> {
    let mut out = SEQ_MAGIC.to_vec();
    out.push(parts.len() as u8);
    for p in parts {
        out.push((p.len() >> 8) as u8);
        out.push(p.len() as u8);
        out.extend_from_slice(p);
    }
    out
}

pub fn decode_seq(case: &[u8]) -> Option<Vec<&[u8]>> {
    let mut r = case.strip_prefix(SEQ_MAGIC)?;
    let n = *r.first()? as usize;
    r = &r[1..];
    let mut parts = Vec::with_capacity(n);
    for _ in 0..n {
        if r.len() < 2 {
            return None;
        }
        let l = ((r[0] as usize) << 8) | r[1] as usize;
        if r.len() < 2 + l {
            return None;
        }
        parts.push(&r[2..2 + l]);
        r = &r[2 + l..];
    }
    Some(parts)
}

pub fn render_seq_or_bytes(case: &[u8]) -> Value {
    match decode_seq(case) {
        Some(parts) => json!({"call_history_in_one_reused_buffer": parts.iter().map(|p| escape(p)).collect::<Vec<_>>()}),
        None => render_bytes(case),
    }
}

/// An entry point reduced to a printable outcome ("PANIC: …" included), for differential comparison.
pub type Outcome = fn(&[u8]) -> String;

/// For each entry point E: replay the history through E alone in one reused allocation, call E on the last
/// input, and compare with E on the same input in a fresh allocation.  The properties quantify over inputs,
/// so the two outcomes must be identical.
pub fn history_differential(parts: &[&[u8]], acc: &mut Acc, entries: &[(&'static str, Outcome)]) {
    let (last, earlier) = match parts.split_last() {
        Some(x) => x,
        None => return,
    };
    let cap = parts.iter().map(|p| p.len()).max().unwrap_or(0) + 16;
    for (name, e) in entries {
        let fresh = e(&last.to_vec());
        let mut buf: Vec<u8> = Vec::with_capacity(cap);
        for p in earlier {
            buf.clear();
            buf.extend_from_slice(p);
            let _ = e(&buf);
        }
        buf.clear();
        buf.extend_from_slice(last);
        let reused = e(&buf);
        acc.eval(parts.len() as u64 + 1);
        acc.validated(1);
        if reused != fresh {
            acc.violation(
                &format!("result-depends-on-call-history:{}", name),
                name,
                format!("the same outcome as in a fresh buffer: {}", &fresh[..fresh.len().min(300)]),
                format!("after the history, in the reused buffer: {}", &reused[..reused.len().min(300)]),
            );
        }
    }
}

/// Replay a history: every earlier input is run through `warm` in one reused allocation, then the last one is
/// judged (in that same allocation) by `plain`.
pub fn judge_history_case(parts: &[&[u8]], acc: &mut Acc, warm: fn(&[u8]), plain: Judge) {
    let cap = parts.iter().map(|p| p.len()).max().unwrap_or(0) + 16;
    let mut buf: Vec<u8> = Vec::with_capacity(cap);
    let (last, earlier) = match parts.split_last() {
        Some(x) => x,
        None => return,
    };
    for p in earlier {
        buf.clear();
        buf.extend_from_slice(p);
        let _ = guard(|| warm(&buf));
        acc.eval(1);
    }
    buf.clear();
    buf.extend_from_slice(last);
    plain(&buf, acc);
}

/// All sequences of length 2..=depth over a pool of inputs (ordered, with repetition).
pub struct SeqUniverse {
    pub name: String,
    pub pool: Vec<Vec<u8>>,
    pub depth: usize,
}

impl Universe for SeqUniverse {
    fn name(&self) -> String {
        self.name.clone()
    }
    fn bound(&self) -> Value {
        json!({"mode": "every ordered sequence (with repetition) of 2..=depth inputs from the pool, parsed one after the other in one reused buffer on one thread; the last result is judged", "pool": self.pool.len(), "depth": self.depth})
    }
    fn units(&self) -> usize {
        self.pool.len()
    }
    fn roots(&self) -> u64 {
        self.pool.len() as u64
    }
    fn run_unit(&self, u: usize, f: &mut dyn FnMut(&[u8])) {
        fn rec<'a>(pool: &'a [Vec<u8>], seq: &mut Vec<&'a [u8]>, left: usize, f: &mut dyn FnMut(&[u8])) {
            if seq.len() >= 2 {
                f(&encode_seq(seq));
            }
            if left == 0 {
                return;
            }
            for p in pool {
                seq.push(p);
                rec(pool, seq, left - 1, f);
                seq.pop();
            }
        }
        let mut seq: Vec<&[u8]> = vec![&self.pool[u]];
        rec(&self.pool, &mut seq, self.depth - 1, f);
    }
}
