#![allow(dead_code, unused_imports, unused_variables, unused_mut)]
//! ppp-mc: bounded exhaustive exploration of misalcedo/ppp against reference models.
//!
//! usage: ppp-mc <PROPERTY> [--tier quick|thorough] [--replay <file>] [--phase <name>] [--merge]
//!
//! exit 0: property held on everything explored (known findings allowed)
//! exit 1: violation (a line `VIOLATION property=<id> replay=<path>` is printed for each minimal witness)
//! exit 2: machinery failure (never a verdict)

mod engine;
mod oracle;
mod props;
mod universe;

use engine::*;
use serde_json::{json, Value};
use std::collections::BTreeMap;
use std::path::PathBuf;
use std::sync::atomic::{AtomicU64, Ordering};
use std::sync::Mutex;
use std::time::{Duration, Instant};

fn verif_dir() -> PathBuf {
    std::env::var_os("PPP_VERIF_DIR").map(PathBuf::from).unwrap_or_else(|| PathBuf::from("/verif"))
}

fn machinery(msg: &str) -> ! {
    eprintln!("MACHINERY-ERROR: {}", msg);
    println!("MACHINERY-ERROR: {}", msg);
    std::process::exit(2);
}

fn main() {
    let args: Vec<String> = std::env::args().collect();
    if args.len() < 2 {
        machinery("usage: ppp-mc <PROPERTY> [--tier quick|thorough] [--replay <file>]");
    }
    let id = args[1].to_uppercase();
    let mut tier = match std::env::var("VERIF_TIER").as_deref() {
        Ok("thorough") => Tier::Thorough,
        _ => Tier::Quick,
    };
    let mut replay: Option<String> = None;
    let mut merge = false;
    let mut profile = "strict".to_string();
    let mut i = 2;
    while i < args.len() {
        match args[i].as_str() {
            "--tier" => {
                i += 1;
                tier = match args.get(i).map(|s| s.as_str()) {
                    Some("quick") => Tier::Quick,
                    Some("thorough") => Tier::Thorough,
                    _ => machinery("--tier quick|thorough"),
                };
            }
            "--replay" => {
                i += 1;
                replay = args.get(i).cloned();
            }
            "--merge" => merge = true,
            "--profile" => {
                i += 1;
                profile = args.get(i).cloned().unwrap_or_default();
            }
            other => machinery(&format!("unknown argument {}", other)),
        }
        i += 1;
    }
    let seed: u64 = std::env::var("VERIF_SEED").ok().and_then(|s| s.parse().ok()).unwrap_or(0);

    let prop = match props::registry().into_iter().find(|p| p.id == id) {
        Some(p) => p,
        None => machinery(&format!("unknown property {}", id)),
    };
    let prop: &'static PropDef = Box::leak(Box::new(prop));

    install_panic_hook();
    let threads = std::env::var("PPP_MC_THREADS").ok().and_then(|s| s.parse().ok()).unwrap_or(16usize);
    rayon::ThreadPoolBuilder::new().num_threads(threads).stack_size(16 << 20).build_global().ok();

    if let Some(path) = replay {
        std::process::exit(do_replay(prop, &path));
    }

    // hang detection: a worker stuck on one case is a violation of C03 and a machinery stop elsewhere
    {
        let pid = prop.id;
        let dir = verif_dir();
        start_watchdog(move |case, ms| {
            let path = write_replay(
                &dir,
                pid,
                9000,
                &Violation {
                    kind: "hang".into(),
                    case,
                    entry: "unknown (worker stuck)".into(),
                    expected: "return within the hang limit".into(),
                    actual: format!("no progress for {} ms", ms),
                },
                prop,
            );
            if pid == "C03" {
                println!("VIOLATION property=C03 replay={}", path);
                std::process::exit(1);
            } else {
                println!("MACHINERY-ERROR: worker made no progress for {} ms (case saved to {}); a hang is property C03's business", ms, path);
                std::process::exit(2);
            }
        });
    }

    let cap = match tier {
        Tier::Quick => Duration::from_secs(std::env::var("PPP_MC_CAP_S").ok().and_then(|s| s.parse().ok()).unwrap_or(240)),
        Tier::Thorough => Duration::from_secs(std::env::var("PPP_MC_CAP_S").ok().and_then(|s| s.parse().ok()).unwrap_or(3000)),
    };
    let run = Run {
        prop,
        tier,
        seed,
        start: Instant::now(),
        cap,
        total: Mutex::new(None),
        reports: Mutex::new(Vec::new()),
        extra: Mutex::new(BTreeMap::new()),
        transitions: AtomicU64::new(0),
        profile: profile.clone(),
    };

    // oracle self-check: the reference grammar must agree with std on the token menus
    let addr = universe::v1::address_tokens();
    let ports = universe::v1::port_tokens();
    let a: Vec<&[u8]> = addr.iter().map(|t| t.as_slice()).collect();
    let p: Vec<&[u8]> = ports.iter().map(|t| t.as_slice()).collect();
    let bad = oracle::ip::self_check(&a, &p);
    if !bad.is_empty() {
        machinery(&format!("reference grammar disagrees with std on menu tokens: {:?}", bad));
    }

    if tier == Tier::Thorough {
        DISTINCT_CAP.store(1 << 27, Ordering::Relaxed);
    }
    (prop.run)(&run);

    std::process::exit(finish(&run, merge));
}

fn write_replay(dir: &PathBuf, id: &str, n: usize, v: &Violation, prop: &PropDef) -> String {
    let d = dir.join("replays").join(id);
    let _ = std::fs::create_dir_all(&d);
    let path = d.join(format!("{}.json", n));
    let doc = json!({
        "property": id,
        "kind": v.kind,
        "entry_point": v.entry,
        "case_hex": hex(&v.case),
        "case": (prop.render)(&v.case),
        "expected": v.expected,
        "actual": v.actual,
    });
    std::fs::write(&path, serde_json::to_string_pretty(&doc).unwrap()).ok();
    path.to_string_lossy().to_string()
}

fn do_replay(prop: &'static PropDef, path: &str) -> i32 {
    let text = match std::fs::read_to_string(path) {
        Ok(t) => t,
        Err(e) => machinery(&format!("cannot read {}: {}", path, e)),
    };
    let doc: Value = serde_json::from_str(&text).unwrap_or_else(|e| machinery(&format!("bad replay json: {}", e)));
    let case = doc["case_hex"].as_str().and_then(unhex).unwrap_or_else(|| machinery("replay has no case_hex"));
    let once = || {
        let mut acc = Acc::scratch();
        run_judge(prop.judge, &case, &mut acc);
        let mut all: Vec<Violation> = acc.viols.into_values().flatten().collect();
        all.sort();
        all
    };
    let a = once();
    let b = once();
    if a != b {
        machinery("replay is not deterministic: two executions of the same case observed different things");
    }
    println!("replay of {} against the current /repo tree: case = {}", path, (prop.render)(&case));
    if a.is_empty() {
        println!("no violation of {} on this case", prop.id);
        return 0;
    }
    for v in &a {
        println!("violation kind={} entry={}\n  case: {}\n  expected: {}\n  actual:   {}", v.kind, v.entry, escape(&v.case), v.expected, v.actual);
    }
    println!("VIOLATION property={} replay={}", prop.id, path);
    1
}

struct Known {
    kind: String,
    case_hex: String,
    what: String,
}

fn load_known(dir: &PathBuf, id: &str) -> Vec<Known> {
    let path = dir.join("known_findings.json");
    let text = match std::fs::read_to_string(&path) {
        Ok(t) => t,
        Err(_) => return Vec::new(),
    };
    let doc: Value = serde_json::from_str(&text).unwrap_or_else(|e| machinery(&format!("known_findings.json: {}", e)));
    let mut out = Vec::new();
    if let Some(list) = doc["findings"].as_array() {
        for f in list {
            if f["property"].as_str() == Some(id) {
                out.push(Known {
                    kind: f["kind"].as_str().unwrap_or("").to_string(),
                    case_hex: f["case_hex"].as_str().unwrap_or("").to_string(),
                    what: f["what"].as_str().unwrap_or("").to_string(),
                });
            }
        }
    }
    out
}

fn finish(run: &Run, merge: bool) -> i32 {
    let prop = run.prop;
    let dir = verif_dir();
    let acc = run.total.lock().unwrap().take().unwrap_or_else(|| Acc::new(run.seed));
    let reports = std::mem::take(&mut *run.reports.lock().unwrap());

    // 1-minimal witnesses, deterministic
    let mut minimal: Vec<Violation> = Vec::new();
    for (_kind, list) in &acc.viols {
        for v in list.iter().take(6) {
            let s = shrink(prop.judge, v, prop.shrink);
            if !minimal.iter().any(|m| m.kind == s.kind && m.case == s.case && m.entry == s.entry) {
                minimal.push(s);
            }
        }
    }
    minimal.sort_by(|a, b| (a.case.len(), &a.kind, &a.case, &a.entry).cmp(&(b.case.len(), &b.kind, &b.case, &b.entry)));
    // drop witnesses subsumed by an identical case of the same kind through another entry point
    let mut seen: Vec<(String, Vec<u8>)> = Vec::new();
    let mut unique: Vec<Violation> = Vec::new();
    for v in minimal {
        if seen.iter().any(|(k, c)| *k == v.kind && *c == v.case) {
            continue;
        }
        seen.push((v.kind.clone(), v.case.clone()));
        unique.push(v);
    }

    let known = load_known(&dir, prop.id);
    let mut known_lines = Vec::new();
    let mut new_viols = Vec::new();
    for v in unique {
        let h = hex(&v.case);
        if let Some(k) = known.iter().find(|k| k.kind == v.kind && k.case_hex == h) {
            known_lines.push(format!("KNOWN-FINDING: property={} kind={} case={} {}", prop.id, v.kind, escape(&v.case), k.what));
        } else {
            new_viols.push(v);
        }
    }
    for l in &known_lines {
        println!("{}", l);
    }
    if !merge {
        let _ = std::fs::remove_dir_all(dir.join("replays").join(prop.id));
    }
    let mut lines = 0;
    for (n, v) in new_viols.iter().enumerate() {
        let n = if merge { n + 100 } else { n };
        if lines >= 40 {
            println!("… {} further minimal witnesses not printed", new_viols.len() - lines);
            break;
        }
        let path = write_replay(&dir, prop.id, n, v, prop);
        println!(
            "violation kind={} entry={} case={}\n    expected: {}\n    actual:   {}",
            v.kind,
            v.entry,
            escape(&v.case),
            v.expected,
            v.actual
        );
        println!("VIOLATION property={} replay={}", prop.id, path);
        lines += 1;
    }

    // evidence
    let all_completed = reports.iter().all(|r| r.completed);
    let states: u64 = reports.iter().map(|r| r.states).sum();
    let transitions: u64 = reports.iter().map(|r| r.transitions).sum();
    let distinct = count_distinct(acc.hashes);
    let mut classes: Vec<Value> = acc
        .classes
        .iter()
        .map(|((o, i), c)| json!({"reference": o, "implementation": i, "count": c.count, "example": escape(&c.sample)}))
        .collect();
    classes.sort_by(|a, b| b["count"].as_u64().cmp(&a["count"].as_u64()));
    let mut samples: Vec<Value> = Vec::new();
    if let Some((_, case)) = &acc.seeded {
        samples.push(json!({"chosen_by": format!("VERIF_SEED={}", run.seed), "case": (prop.render)(case)}));
    }
    let mut class_keys: Vec<_> = acc.classes.iter().collect();
    class_keys.sort_by(|a, b| a.0.cmp(b.0));
    for (k, c) in class_keys.iter().take(12) {
        samples.push(json!({"class": format!("{} / {}", k.0, k.1), "case": (prop.render)(&c.sample)}));
    }
    if samples.is_empty() {
        samples.push(json!({"note": "no case was recorded"}));
    }
    let wall = run.start.elapsed().as_secs_f64();
    let mut coverage = json!({
        "states": states.max(1),
        "transitions": transitions.max(1),
        "traces_validated_against_impl": acc.validated,
        "evaluations": acc.evals,
        "nontrivial_evaluations": acc.nontrivial,
        "distinct_nontrivial": distinct,
        "rule": prop.rule,
        "exhaustive": all_completed,
        "samples": samples,
        "universes": reports.iter().map(|r| json!({
            "name": r.name, "bound": r.bound, "states": r.states, "transitions": r.transitions,
            "evaluations": r.evals, "wall_s": (r.wall_s * 1000.0).round() / 1000.0, "completed": r.completed,
        })).collect::<Vec<_>>(),
        "outcome_classes": classes,
        "distinct_outcome_classes": acc.classes.len(),
        "notes": acc.notes,
        "profile": run.profile,
        "violations_total_before_minimisation": acc.viol_total,
        "minimal_witnesses": new_viols.iter().map(|v| json!({"kind": v.kind, "entry": v.entry, "case": escape(&v.case), "expected": v.expected, "actual": v.actual})).collect::<Vec<_>>(),
        "known_findings_matched": known_lines,
    });
    for (k, v) in run.extra.lock().unwrap().iter() {
        coverage[k] = v.clone();
    }
    let ev_path = dir.join("evidence").join(format!("{}.json", prop.id));
    let _ = std::fs::create_dir_all(dir.join("evidence"));
    let mut doc = json!({
        "property_id": prop.id,
        "tier": run.tier.name(),
        "seed": run.seed,
        "level": "model_checking",
        "coverage": coverage,
        "assumptions": prop.assumptions,
        "wall_s": (wall * 1000.0).round() / 1000.0,
        "violations": new_viols.len(),
    });
    if merge {
        // second build configuration of the same check (C03): fold the earlier run's numbers in
        if let Ok(prev) = std::fs::read_to_string(&ev_path) {
            if let Ok(prev) = serde_json::from_str::<Value>(&prev) {
                let pc = &prev["coverage"];
                for key in ["states", "transitions", "traces_validated_against_impl", "evaluations", "nontrivial_evaluations"] {
                    let s = pc[key].as_u64().unwrap_or(0) + doc["coverage"][key].as_u64().unwrap_or(0);
                    doc["coverage"][key] = json!(s);
                }
                doc["coverage"]["exhaustive"] = json!(all_completed && pc["exhaustive"].as_bool().unwrap_or(false));
                doc["coverage"]["profile"] = json!(format!("{} + {}", pc["profile"].as_str().unwrap_or("?"), run.profile));
                doc["coverage"]["previous_configuration"] = json!({
                    "profile": pc["profile"], "universes": pc["universes"], "outcome_classes": pc["outcome_classes"],
                    "wall_s": prev["wall_s"], "violations": prev["violations"],
                });
                doc["wall_s"] = json!(prev["wall_s"].as_f64().unwrap_or(0.0) + wall);
                doc["violations"] = json!(prev["violations"].as_u64().unwrap_or(0) + new_viols.len() as u64);
            }
        }
    }
    if let Err(e) = std::fs::write(&ev_path, serde_json::to_string_pretty(&doc).unwrap()) {
        machinery(&format!("cannot write evidence: {}", e));
    }

    println!(
        "{} {} [{}]: states={} transitions={} evaluations={} validated={} distinct_nontrivial={} classes={} exhaustive={} wall={:.1}s violations={} known={}",
        prop.id,
        run.tier.name(),
        run.profile,
        states,
        transitions,
        acc.evals,
        acc.validated,
        distinct,
        acc.classes.len(),
        all_completed,
        wall,
        new_viols.len(),
        known_lines.len()
    );
    if !new_viols.is_empty() {
        return 1;
    }
    if !all_completed && run.tier == Tier::Quick {
        println!("MACHINERY-ERROR: wall cap hit before the quick bound completed");
        return 2;
    }
    let _ = Ordering::Relaxed;
    0
}
