//! C16 — text, byte and FromStr entry points agree; owned copies equal their originals.

use super::common::*;
use crate::engine::*;
use crate::oracle::{utf8, v1 as o1};
use crate::universe::v2 as u2;
use ppp::v1;
use ppp::v2;

pub fn def() -> PropDef {
    PropDef {
        id: "C16",
        title: "Text, byte and FromStr entry points agree; owned copies equal their originals",
        judge: judge_any,
        run,
        shrink: Shrink::Bytes,
        render: render_bytes,
        rule: "every valid-UTF-8 input of the v1 universes goes through try_from(&str), try_from(&[u8]), str::parse::<Header>() and str::parse::<Addresses>(): same outcome when the examined window ends on a character boundary, an error in all four when it does not; every accepted v1 / v2 header (v1 universes; U2-ctl, U2-addr, U2-byte, embedded TLV sections) and every decoded TLV is copied with to_owned(), compared, then the source buffer is overwritten with 0xAA and dropped and the copy compared with a snapshot; non-trivial = valid UTF-8 starting with `P`, or an accepted header; distinct = hash of the input",
        assumptions: &["memory safety of the 'static copies is the type system's (the crate has no unsafe); the clobber test checks value independence"],
    }
}

fn outcome_s(r: &V1S) -> String {
    match r {
        Err(p) => format!("PANIC({})", p),
        Ok(Ok(h)) => format!("Ok(header={:?}, {:?})", h.header, h.addresses),
        Ok(Err(e)) => format!("Err({:?})", e),
    }
}

fn v1_agreement(input: &[u8], s: &str, acc: &mut Acc) {
    let w = o1::window(input);
    let on_boundary = utf8::is_boundary(input, w.len());
    let rs = v1_str(s);
    let rb = v1_bytes(input);
    let rh: Result<Result<v1::Header<'static>, v1::ParseError>, String> = guard(|| s.parse::<v1::Header<'static>>());
    let ra: Result<Result<v1::Addresses, v1::ParseError>, String> = guard(|| s.parse::<v1::Addresses>());
    acc.eval(4);
    acc.validated(1);
    acc.class(if on_boundary { "window-on-char-boundary" } else { "window-splits-a-character" }, v1s_name(&rs));
    if !on_boundary {
        // an error in all of them
        let all_err = matches!(rs, Ok(Err(_))) && matches!(rb, Ok(Err(_))) && matches!(rh, Ok(Err(_))) && matches!(ra, Ok(Err(_)));
        if !all_err {
            acc.violation(
                "split-character-not-an-error-everywhere",
                "four v1 entry points",
                "Err from try_from(&str), try_from(&[u8]), parse::<Header>, parse::<Addresses>".into(),
                format!("str: {} | bytes: {} | FromStr Header: {} | FromStr Addresses: {}", outcome_s(&rs), v1b_name(&rb), match &rh { Err(p) => format!("PANIC({})", p), Ok(x) => format!("{:?}", x.as_ref().map(|h| h.header.len())) }, match &ra { Err(p) => format!("PANIC({})", p), Ok(x) => format!("{:?}", x) }),
            );
        }
        return;
    }
    // same outcome
    let rs_v = match &rs {
        Ok(v) => v,
        Err(p) => {
            acc.violation("text-entry-panicked", "v1::Header::try_from(&str)", "a result".into(), p.clone());
            return;
        }
    };
    let same_b = match (&rb, rs_v) {
        (Ok(Ok(hb)), Ok(hs)) => hb == hs,
        (Ok(Err(v1::BinaryParseError::Parse(eb))), Err(es)) => eb == es,
        _ => false,
    };
    if !same_b {
        acc.violation("bytes-vs-text-differ", "try_from(&[u8]) vs try_from(&str)", outcome_s(&rs), format!("{:?}", rb));
    }
    let same_h = match (&rh, rs_v) {
        (Ok(Ok(ho)), Ok(hs)) => ho == hs && ho.header.as_ref() == hs.header.as_ref(),
        (Ok(Err(eo)), Err(es)) => eo == es,
        _ => false,
    };
    if !same_h {
        acc.violation("fromstr-header-vs-text-differ", "str::parse::<Header>() vs try_from(&str)", outcome_s(&rs), format!("{:?}", rh));
    }
    let same_a = match (&ra, rs_v) {
        (Ok(Ok(a)), Ok(hs)) => *a == hs.addresses,
        (Ok(Err(ea)), Err(es)) => ea == es,
        _ => false,
    };
    if !same_a {
        acc.violation("fromstr-addresses-vs-text-differ", "str::parse::<Addresses>() vs try_from(&str)", outcome_s(&rs), format!("{:?}", ra));
    }
}

fn v1_owned(input: &[u8], acc: &mut Acc) {
    let mut buf = input.to_vec();
    let res = guard(|| {
        let h = match v1::Header::try_from(&buf[..]) {
            Ok(h) => h,
            Err(_) => return None,
        };
        let o = h.to_owned();
        let snap = (h.header.to_string(), h.addresses, h.protocol().to_string(), h.addresses_str().to_string(), h.to_string());
        // `==` in both directions, `!=` (which an impl may override), and clones made either way
        let mut c2 = v1::Header::new("", v1::Addresses::Unknown).to_owned();
        c2.clone_from(&o);
        let equal = o == h && h == o && !(o != h) && !(h != o) && o.clone() == h && c2 == h && h.clone().to_owned() == o && o.header.as_ref() == h.header.as_ref() && o.addresses == h.addresses && o.protocol() == h.protocol() && o.addresses_str() == h.addresses_str() && o.to_string() == h.to_string();
        Some((o, snap, equal))
    });
    acc.eval(2);
    match res {
        Ok(None) => {}
        Err(p) => acc.violation("owned-copy-panicked", "v1::Header::to_owned", "normal return".into(), p),
        Ok(Some((o, snap, equal))) => {
            acc.validated(1);
            if !equal {
                acc.violation("owned-copy-differs", "v1::Header::to_owned", format!("{:?}", snap), format!("{:?}", o));
            }
            buf.iter_mut().for_each(|b| *b = 0xaa);
            drop(buf);
            let after = (o.header.to_string(), o.addresses, o.protocol().to_string(), o.addresses_str().to_string(), o.to_string());
            if after != snap {
                acc.violation("owned-copy-changed-after-clobber", "v1::Header::to_owned", format!("{:?}", snap), format!("{:?}", after));
            }
        }
    }
}

type TlvSnap = Vec<Result<(u8, Vec<u8>), String>>;

fn tlv_list(h: &v2::Header) -> TlvSnap {
    let cap = h.tlv_bytes().len() / 3 + 2;
    h.tlvs().take(cap).map(|t| t.map(|t| (t.kind, t.value.to_vec())).map_err(|e| format!("{:?}", e))).collect()
}

fn v2_owned(input: &[u8], acc: &mut Acc) {
    let mut buf = input.to_vec();
    let res = guard(|| {
        let h = match v2::Header::try_from(&buf[..]) {
            Ok(h) => h,
            Err(_) => return None,
        };
        let o = h.to_owned();
        let snap = (h.as_bytes().to_vec(), h.addresses, h.address_bytes().to_vec(), h.tlv_bytes().to_vec(), h.length(), h.len(), format!("{}", h), tlv_list(&h));
        // clone_from into a slot that held a *different* header of the same family (same bytes, address block inverted)
        // when that variant parses, else into a copy of itself
        let mut c2 = {
            let mut other = h.as_bytes().to_vec();
            let n = h.address_bytes().len().min(36);
            for b in other.iter_mut().skip(16).take(n) {
                *b = !*b;
            }
            match v2::Header::try_from(&other[..]) {
                Ok(x) if n > 0 => x.to_owned(),
                _ => o.clone(),
            }
        };
        c2.clone_from(&o);
        let mut equal = o == h
            && c2.addresses == h.addresses
            && c2.as_bytes() == h.as_bytes()
            && h == o
            && !(o != h)
            && !(h != o)
            && o.clone() == h
            && c2 == h
            && h.clone().to_owned() == o
            && o.as_bytes() == h.as_bytes()
            && o.version == h.version
            && o.command == h.command
            && o.protocol == h.protocol
            && o.addresses == h.addresses
            && o.address_bytes() == h.address_bytes()
            && o.tlv_bytes() == h.tlv_bytes()
            && o.length() == h.length()
            && o.len() == h.len()
            && format!("{}", o) == format!("{}", h)
            && tlv_list(&o) == tlv_list(&h);
        // owned copies of the decoded TLVs
        let cap = h.tlv_bytes().len() / 3 + 2;
        let mut owned_tlvs = Vec::new();
        for t in h.tlvs().take(cap).flatten() {
            let ot = t.to_owned();
            if ot != t || !(ot == t) || !(t == ot) || ot.clone() != t || ot.kind != t.kind || ot.value.as_ref() != t.value.as_ref() || ot.len() != t.len() || ot.is_empty() != t.is_empty() {
                equal = false;
            }
            owned_tlvs.push((ot, (t.kind, t.value.to_vec())));
        }
        Some((o, snap, equal, owned_tlvs))
    });
    acc.eval(2);
    match res {
        Ok(None) => {}
        Err(p) => acc.violation("owned-copy-panicked", "v2::Header::to_owned", "normal return".into(), p),
        Ok(Some((o, snap, equal, owned_tlvs))) => {
            acc.validated(1);
            if !equal {
                acc.violation("owned-copy-differs", "v2::Header::to_owned / TypeLengthValue::to_owned", format!("{} bytes {:?}", snap.0.len(), snap.1), format!("{:?} {} bytes", o.addresses, o.as_bytes().len()));
            }
            buf.iter_mut().for_each(|b| *b = 0xaa);
            drop(buf);
            let after = (o.as_bytes().to_vec(), o.addresses, o.address_bytes().to_vec(), o.tlv_bytes().to_vec(), o.length(), o.len(), format!("{}", o), tlv_list(&o));
            if after != snap {
                acc.violation("owned-copy-changed-after-clobber", "v2::Header::to_owned", format!("{} bytes {:?}", snap.0.len(), snap.1), format!("{} bytes {:?}", after.0.len(), after.1));
            }
            for (ot, (k, v)) in owned_tlvs {
                if ot.kind != k || ot.value.as_ref() != v.as_slice() {
                    acc.violation("owned-tlv-changed-after-clobber", "TypeLengthValue::to_owned", format!("kind {} value {}", k, hex(&v)), format!("{:?}", ot));
                }
            }
        }
    }
}

pub fn judge(input: &[u8], acc: &mut Acc) {
    if let Ok(s) = std::str::from_utf8(input) {
        if input.first() == Some(&b'P') {
            acc.nontrivial();
        }
        v1_agreement(input, s, acc);
    } else {
        acc.class("not-utf8", "-");
    }
    v1_owned(input, acc);
}

pub fn judge_v2(input: &[u8], acc: &mut Acc) {
    acc.class("v2-owned-copy", "-");
    if input.len() >= 16 {
        acc.nontrivial();
    }
    v2_owned(input, acc);
}

/// Replay / shrink entry: both families of checks (a v2 signature starts with CR, which is also a v1 input).
pub fn judge_any(input: &[u8], acc: &mut Acc) {
    judge(input, acc);
    v2_owned(input, acc);
}

pub fn run(run: &Run) {
    let b = v1_bounds(run.tier);
    for u in v1_universes(&b) {
        run.explore_with(u.as_ref(), judge);
    }
    run.explore_with(&u2::CtlUniverse, judge_v2);
    run.explore_with(&u2::addr_universe(), judge_v2);
    run.explore_with(&u2::anybyte_universe(), judge_v2);
    run.explore_with(&u2::byte_universe(run.tier.pick(3, 4)), judge_v2);
    run.explore_with(&super::c11::EmbeddedTlv { n: run.tier.pick(6, 8) }, judge_v2);
    run.explore_with(&super::c11::EmbeddedText { n: run.tier.pick(6, 8) }, judge_v2);
    run.explore_with(&super::c11::EmbeddedStructured::new(false), judge_v2);
    run.explore_with(&super::c11::NearMaxStructured { span: run.tier.pick(8, 35) }, judge_v2);
}
