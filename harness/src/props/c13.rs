//! C13 — re-encoding a parsed v2 header from its parts reproduces it byte for byte.

use super::c02::v2_key;
use super::common::*;
use crate::engine::*;
use crate::oracle::tlv as otlv;
use crate::universe::v2 as u2;
use ppp::v2;

pub fn def() -> PropDef {
    PropDef {
        id: "C13",
        title: "Re-encoding a parsed v2 header from its parts reproduces it byte for byte",
        judge,
        run,
        shrink: Shrink::Bytes,
        render: render_bytes,
        rule: "every header the real parser accepts in U2-ctl, U2-len (24 valid control pairs x every length 0..=65535), U2-addr, U2-sig, U2-byte and the embedded TLV sections (every string over a 5-byte alphabet up to n, structured sequences with every truncation) is rebuilt through the real Builder five ways (raw views; tlvs() as a section; decoded items when well-formed; decoded address value; a write_payloads batch as the very first write) and compared with the original bytes; non-trivial = accepted; distinct = hash of (control bytes, length, first 64 payload bytes)",
        assumptions: &["every declared length 0..=65535 is rebuilt for all 24 control pairs in both tiers"],
    }
}

fn rebuild_all(acc: &mut Acc, input: &[u8], h: &v2::Header) {
    // a proxy thread may have had a batch refused earlier (an oversized value): that must not affect later rebuilds
    static BIG: std::sync::OnceLock<Vec<u8>> = std::sync::OnceLock::new();
    let big = BIG.get_or_init(|| vec![0x5a; 65536]);
    let refused = v2::Builder::new(0x21, 0x11).write_payloads([&[0xd1u8, 0xd2][..], &big[..]]).is_err();
    if !refused {
        acc.note("advisory: a batch with a 65536-byte slice was not refused (C09's business)", 1);
    }
    let orig = h.as_bytes();
    let vc = input[12];
    let afp = input[13];
    let mut cmp = |acc: &mut Acc, kind: &str, how: &str, got: std::io::Result<Vec<u8>>| {
        acc.eval(1);
        acc.validated(1);
        match got {
            Ok(bytes) if bytes == orig => {}
            Ok(bytes) => {
                let at = bytes.iter().zip(orig.iter()).position(|(a, b)| a != b).unwrap_or(bytes.len().min(orig.len()));
                acc.violation(kind, how, format!("{} original bytes", orig.len()), format!("{} bytes, first difference at offset {}: {}", bytes.len(), at, escape(&bytes[at.saturating_sub(4)..bytes.len().min(at + 12)])));
            }
            Err(e) => acc.violation(kind, how, format!("{} original bytes", orig.len()), format!("builder error {:?}", e.kind())),
        }
    };
    // (A) raw views
    let a = v2::Builder::new(vc, afp)
        .write_payload(h.address_bytes())
        .and_then(|b| b.write_payload(h.tlv_bytes()))
        .and_then(|b| b.build());
    cmp(acc, "rebuild-from-raw-views-differs", "Builder::new(vc, afp).write_payload(address_bytes()).write_payload(tlv_bytes()).build()", a);
    // (B) the TLV iterator as a section
    let b = v2::Builder::new(vc, afp)
        .write_payload(h.address_bytes())
        .and_then(|b| b.write_payload(h.tlvs()))
        .and_then(|b| b.build());
    cmp(acc, "rebuild-from-tlvs-section-differs", "… .write_payload(tlvs()) …", b);
    // (B') the same after the cursor has been advanced by one and by two items
    for steps in 1..=2usize {
        let mut t = h.tlvs();
        let mut advanced = 0;
        for _ in 0..steps {
            if t.next().is_some() {
                advanced += 1;
            }
        }
        if advanced == steps {
            let b2 = v2::Builder::new(vc, afp)
                .write_payload(h.address_bytes())
                .and_then(|b| b.write_payload(t))
                .and_then(|b| b.build());
            cmp(acc, "rebuild-from-tlvs-section-differs", "… .write_payload(tlvs() after next()) …", b2);
        }
    }
    // (C) decoded items, when the section is well-formed
    let wf = otlv::well_formed(h.tlv_bytes());
    if wf {
        let items: Vec<_> = h.tlvs().take(h.tlv_bytes().len() / 3 + 2).collect(); // bounded: a runaway iterator is C11's business, not a reason to hang here
        if items.iter().all(|i| i.is_ok()) {
            let mut bld = v2::Builder::new(vc, afp).write_payload(h.address_bytes());
            for it in items.iter().flatten() {
                bld = bld.and_then(|b| b.write_payload(it.clone()));
            }
            cmp(acc, "rebuild-from-decoded-items-differs", "… .write_payload(each decoded TypeLengthValue) …", bld.and_then(|b| b.build()));
            // batch form
            let c2 = v2::Builder::new(vc, afp)
                .write_payload(h.address_bytes())
                .and_then(|b| b.write_payloads(items.iter().flatten().map(|t| (t.kind, t.value.as_ref()))))
                .and_then(|b| b.build());
            cmp(acc, "rebuild-from-decoded-items-differs", "… .write_payloads((kind, value) tuples) …", c2);
        }
    }
    // (E) a batch as the very first write: the raw views as one write_payloads call, and the decoded items right after
    //     with_addresses (nothing written one at a time before the batch)
    let e1 = v2::Builder::new(vc, afp).write_payloads([h.address_bytes(), h.tlv_bytes()]).and_then(|b| b.build());
    cmp(acc, "rebuild-from-raw-views-differs", "Builder::new(vc, afp).write_payloads([address_bytes(), tlv_bytes()]).build()", e1);
    if wf && afp >> 4 != 0 {
        let items: Vec<_> = h.tlvs().take(h.tlv_bytes().len() / 3 + 2).flatten().collect();
        let e2 = v2::Builder::with_addresses(vc, h.protocol, h.addresses).write_payloads(items).and_then(|b| b.build());
        cmp(acc, "rebuild-from-decoded-items-differs", "Builder::with_addresses(vc, protocol, addresses).write_payloads(decoded items).build()", e2);
    }
    // (D) from the decoded address value, when a family is specified
    if afp >> 4 != 0 {
        let d = v2::Builder::with_addresses(vc, h.protocol, h.addresses)
            .write_payload(h.tlv_bytes())
            .and_then(|b| b.build());
        cmp(acc, "rebuild-from-decoded-addresses-differs", "Builder::with_addresses(vc, protocol, addresses).write_payload(tlv_bytes()).build()", d);
        let d2 = v2::Builder::new(vc, afp)
            .write_payload(h.addresses)
            .and_then(|b| b.write_payload(h.tlv_bytes()))
            .and_then(|b| b.build());
        cmp(acc, "rebuild-from-decoded-addresses-differs", "Builder::new(vc, afp).write_payload(addresses).write_payload(tlv_bytes()).build()", d2);
    }
}

pub fn judge(input: &[u8], acc: &mut Acc) {
    let r = v2_parse(input);
    acc.eval(1);
    let h = match &r {
        Ok(Ok(h)) => h,
        _ => {
            acc.class("not-accepted", v2_name(&r));
            return;
        }
    };
    let wf = otlv::well_formed(h.tlv_bytes());
    acc.class(if wf { "accepted, TLV section well-formed" } else { "accepted, TLV section malformed" }, v2_name(&r));
    acc.nontrivial_key(v2_key(input));
    if let Err(p) = guard(|| rebuild_all(acc, input, h)) {
        acc.violation("rebuild-panicked", "Builder", "normal return".into(), p);
    }
}

pub fn run(run: &Run) {
    run.explore(&u2::CtlUniverse);
    run.explore(&u2::LenUniverse { presents: u2::Presents::AcceptedStride(1), name: "U2-len/accepted-stride" });
    run.explore(&u2::sig_universe());
    run.explore(&u2::addr_universe());
    run.explore(&u2::anybyte_universe());
    run.explore(&u2::byte_universe(run.tier.pick(3, 4)));
    run.explore(&super::c11::EmbeddedTlv { n: run.tier.pick(7, 9) });
    run.explore(&super::c11::EmbeddedText { n: run.tier.pick(7, 9) });
    run.explore(&super::c11::EmbeddedStructured::new(run.tier == Tier::Thorough));
    run.explore(&super::c11::NearMaxStructured { span: run.tier.pick(35, 135) });
}
