//! Address *values* as cases (shared by C07, C08, C19, C20): a compact byte encoding and the UA universe.

use crate::engine::{escape, hex, Universe};
use serde_json::{json, Value};

#[derive(Clone, Debug, PartialEq)]
pub enum AV {
    None,
    V4 { src: [u8; 4], dst: [u8; 4], sport: u16, dport: u16 },
    V6 { src: [u8; 16], dst: [u8; 16], sport: u16, dport: u16 },
    Unix { src: [u8; 108], dst: [u8; 108] },
}

impl AV {
    pub fn encode(&self, out: &mut Vec<u8>) {
        match self {
            AV::None => out.push(b'N'),
            AV::V4 { src, dst, sport, dport } => {
                out.push(b'4');
                out.extend_from_slice(src);
                out.extend_from_slice(dst);
                out.extend_from_slice(&sport.to_be_bytes());
                out.extend_from_slice(&dport.to_be_bytes());
            }
            AV::V6 { src, dst, sport, dport } => {
                out.push(b'6');
                out.extend_from_slice(src);
                out.extend_from_slice(dst);
                out.extend_from_slice(&sport.to_be_bytes());
                out.extend_from_slice(&dport.to_be_bytes());
            }
            AV::Unix { src, dst } => {
                out.push(b'U');
                out.extend_from_slice(src);
                out.extend_from_slice(dst);
            }
        }
    }

    /// Decode one value from the front of `b`; returns the rest.
    pub fn decode(b: &[u8]) -> Option<(AV, &[u8])> {
        match *b.first()? {
            b'N' => Some((AV::None, &b[1..])),
            b'4' if b.len() >= 13 => Some((
                AV::V4 { src: b[1..5].try_into().ok()?, dst: b[5..9].try_into().ok()?, sport: u16::from_be_bytes([b[9], b[10]]), dport: u16::from_be_bytes([b[11], b[12]]) },
                &b[13..],
            )),
            b'6' if b.len() >= 37 => Some((
                AV::V6 { src: b[1..17].try_into().ok()?, dst: b[17..33].try_into().ok()?, sport: u16::from_be_bytes([b[33], b[34]]), dport: u16::from_be_bytes([b[35], b[36]]) },
                &b[37..],
            )),
            b'U' if b.len() >= 217 => Some((AV::Unix { src: b[1..109].try_into().ok()?, dst: b[109..217].try_into().ok()? }, &b[217..])),
            _ => None,
        }
    }

    pub fn family(&self) -> u8 {
        match self {
            AV::None => 0,
            AV::V4 { .. } => 1,
            AV::V6 { .. } => 2,
            AV::Unix { .. } => 3,
        }
    }

    /// Wire block per the specification.
    pub fn block(&self) -> Vec<u8> {
        let mut out = Vec::new();
        self.encode(&mut out);
        out.remove(0);
        out
    }

    pub fn describe(&self) -> String {
        match self {
            AV::None => "none".into(),
            AV::V4 { src, dst, sport, dport } => format!("{}.{}.{}.{}:{} -> {}.{}.{}.{}:{}", src[0], src[1], src[2], src[3], sport, dst[0], dst[1], dst[2], dst[3], dport),
            AV::V6 { src, dst, sport, dport } => format!("[{}]:{} -> [{}]:{}", hex(src), sport, hex(dst), dport),
            AV::Unix { src, dst } => format!("unix {} -> {}", escape(&src[..8]), escape(&dst[..8])),
        }
    }
}

pub fn render_av(case: &[u8]) -> Value {
    match AV::decode(case) {
        Some((v, _)) => json!({ "value": v.describe() }),
        None => json!({ "raw": hex(case) }),
    }
}

pub const OCTETS: [u8; 9] = [0, 1, 9, 10, 99, 100, 199, 200, 255];
pub const PORTS: [u16; 11] = [0, 1, 9, 10, 99, 100, 999, 1000, 9999, 10000, 65535];
pub const GROUP_VALUES: [u16; 3] = [1, 0xabc, 0xffff];

fn groups_to_octets(g: [u16; 8]) -> [u8; 16] {
    let mut o = [0u8; 16];
    for i in 0..8 {
        o[2 * i] = (g[i] >> 8) as u8;
        o[2 * i + 1] = g[i] as u8;
    }
    o
}

pub fn fixed_v6() -> Vec<[u8; 16]> {
    vec![
        groups_to_octets([0; 8]),
        groups_to_octets([0, 0, 0, 0, 0, 0, 0, 1]),
        groups_to_octets([0xffff; 8]),
        groups_to_octets([0x2001, 0xdb8, 0, 0, 1, 0, 0, 1]),
        groups_to_octets([0, 0, 0, 0, 0, 0xffff, 0x0102, 0x0304]),
        groups_to_octets([1, 0, 0, 2, 0, 0, 0, 3]),
    ]
}

/// UA: the address-value universe.  Unit u < 256 is the IPv6 zero/non-zero mask u; the remaining units
/// hold IPv4 values, port pairs, single-bit walks and special IPv6 shapes.
pub struct AddrValues {
    /// per-group values for IPv6 masks (true: all 3^popcount combinations; false: one uniform value)
    pub per_group: bool,
    pub with_unix: bool,
}

impl AddrValues {
    fn emit(v: &AV, buf: &mut Vec<u8>, f: &mut dyn FnMut(&[u8])) {
        buf.clear();
        v.encode(buf);
        f(buf);
    }
}

impl Universe for AddrValues {
    fn name(&self) -> String {
        "UA".into()
    }
    fn bound(&self) -> Value {
        json!({
            "mode": "address values",
            "ipv4": "each octet position x {0,1,9,10,99,100,199,200,255} (all 6561 combinations) as source and as destination; ports {0,1,9,10,99,100,999,1000,9999,10000,65535}^2; every single-bit tuple (96 bits)",
            "ipv6": if self.per_group { "all 256 zero/non-zero group masks x every assignment of {1,0xabc,0xffff} to the non-zero groups (65536 values) as source with 6 destinations and vice versa; every single-bit tuple (288 bits); IPv4-mapped / compatible / all-ones" } else { "all 256 zero/non-zero group masks x 3 uniform values as source and destination; every single-bit tuple" },
            "unix": self.with_unix,
        })
    }
    fn units(&self) -> usize {
        256 + 6
    }
    fn roots(&self) -> u64 {
        1
    }
    fn run_unit(&self, u: usize, f: &mut dyn FnMut(&[u8])) {
        let mut buf = Vec::with_capacity(256);
        if u < 256 {
            let mask = u as u8;
            let positions: Vec<usize> = (0..8).filter(|i| mask & (1 << i) != 0).collect();
            let fixed = fixed_v6();
            let combos: u32 = if self.per_group { 3u32.pow(positions.len() as u32) } else { 3 };
            for c in 0..combos {
                let mut g = [0u16; 8];
                let mut x = c;
                for &p in &positions {
                    if self.per_group {
                        g[p] = GROUP_VALUES[(x % 3) as usize];
                        x /= 3;
                    } else {
                        g[p] = GROUP_VALUES[c as usize];
                    }
                }
                let a = groups_to_octets(g);
                for (i, other) in fixed.iter().enumerate() {
                    Self::emit(&AV::V6 { src: a, dst: *other, sport: 1000 + i as u16, dport: 443 }, &mut buf, f);
                    Self::emit(&AV::V6 { src: *other, dst: a, sport: 65535, dport: i as u16 }, &mut buf, f);
                }
                if positions.is_empty() {
                    break;
                }
            }
            return;
        }
        match u - 256 {
            0 => {
                // IPv4 source octets
                for a in OCTETS {
                    for b in OCTETS {
                        for c in OCTETS {
                            for d in OCTETS {
                                Self::emit(&AV::V4 { src: [a, b, c, d], dst: [5, 6, 7, 8], sport: 80, dport: 443 }, &mut buf, f);
                            }
                        }
                    }
                }
            }
            1 => {
                for a in OCTETS {
                    for b in OCTETS {
                        for c in OCTETS {
                            for d in OCTETS {
                                Self::emit(&AV::V4 { src: [1, 2, 3, 4], dst: [a, b, c, d], sport: 65535, dport: 0 }, &mut buf, f);
                            }
                        }
                    }
                }
            }
            2 => {
                for sp in PORTS {
                    for dp in PORTS {
                        Self::emit(&AV::V4 { src: [1, 2, 3, 4], dst: [5, 6, 7, 8], sport: sp, dport: dp }, &mut buf, f);
                        Self::emit(&AV::V4 { src: [255, 255, 255, 255], dst: [0, 0, 0, 0], sport: sp, dport: dp }, &mut buf, f);
                        Self::emit(&AV::V6 { src: fixed_v6()[3], dst: fixed_v6()[5], sport: sp, dport: dp }, &mut buf, f);
                        Self::emit(&AV::V6 { src: fixed_v6()[2], dst: fixed_v6()[2], sport: sp, dport: dp }, &mut buf, f);
                    }
                }
            }
            3 => {
                // single-bit walks
                for bit in 0..96 {
                    let mut t = [0u8; 12];
                    t[bit / 8] = 0x80 >> (bit % 8);
                    Self::emit(&AV::V4 { src: t[0..4].try_into().unwrap(), dst: t[4..8].try_into().unwrap(), sport: u16::from_be_bytes([t[8], t[9]]), dport: u16::from_be_bytes([t[10], t[11]]) }, &mut buf, f);
                }
                for bit in 0..288 {
                    let mut t = [0u8; 36];
                    t[bit / 8] = 0x80 >> (bit % 8);
                    Self::emit(&AV::V6 { src: t[0..16].try_into().unwrap(), dst: t[16..32].try_into().unwrap(), sport: u16::from_be_bytes([t[32], t[33]]), dport: u16::from_be_bytes([t[34], t[35]]) }, &mut buf, f);
                }
                // every byte value in every byte position
                for pos in 0..12 {
                    for v in 0..=255u8 {
                        let mut t = [0x11u8; 12];
                        t[pos] = v;
                        Self::emit(&AV::V4 { src: t[0..4].try_into().unwrap(), dst: t[4..8].try_into().unwrap(), sport: u16::from_be_bytes([t[8], t[9]]), dport: u16::from_be_bytes([t[10], t[11]]) }, &mut buf, f);
                    }
                }
                for pos in 0..36 {
                    for v in 0..=255u8 {
                        let mut t = [0x11u8; 36];
                        t[pos] = v;
                        Self::emit(&AV::V6 { src: t[0..16].try_into().unwrap(), dst: t[16..32].try_into().unwrap(), sport: u16::from_be_bytes([t[32], t[33]]), dport: u16::from_be_bytes([t[34], t[35]]) }, &mut buf, f);
                    }
                }
            }
            4 => {
                Self::emit(&AV::None, &mut buf, f);
                // special IPv6 shapes: mapped, compatible, ::ffff:0:a:b, 64:ff9b::, two equal zero runs, all distinct
                let specials: Vec<[u16; 8]> = vec![
                    [0, 0, 0, 0, 0, 0xffff, 0xc0a8, 0x0101],
                    [0, 0, 0, 0, 0, 0, 0xc0a8, 0x0101],
                    [0, 0, 0, 0, 0xffff, 0, 0x0a0b, 0x0c0d],
                    [0x64, 0xff9b, 0, 0, 0, 0, 0x0102, 0x0304],
                    [1, 0, 0, 2, 0, 0, 3, 4],
                    [1, 0, 0, 0, 2, 0, 0, 0],
                    [0, 1, 0, 0, 0, 0, 1, 0],
                    [0x1234, 0x5678, 0x90ab, 0xcdef, 0xfedc, 0xba09, 0x8765, 0x4321],
                    [0, 0, 0, 0, 0, 0, 0, 0xffff],
                    [0, 0, 0, 0, 0, 0, 1, 0],
                    [0, 0, 0, 0, 0, 0xffff, 0, 0],
                    [0xa, 0xb, 0xc, 0xd, 0xe, 0xf, 0x10, 0x11],
                    // address classes: link-local, multicast, unique-local, documentation, 6to4
                    [0xfe80, 0, 0, 0, 0, 0, 0, 2],
                    [0xfe80, 0, 0, 0, 0x0202, 0xb3ff, 0xfe1e, 0x8329],
                    [0xff02, 0, 0, 0, 0, 0, 0, 1],
                    [0xfd00, 0x1234, 0, 0, 0, 0, 0, 1],
                    [0x2001, 0xdb8, 0, 0, 0, 0, 0, 0x1a],
                    [0x2002, 0xc000, 0x0204, 0, 0, 0, 0, 1],
                ];
                for s in &specials {
                    for d in &specials {
                        Self::emit(&AV::V6 { src: groups_to_octets(*s), dst: groups_to_octets(*d), sport: 12345, dport: 54321 }, &mut buf, f);
                    }
                }
                // related endpoints: destination = source with one group changed (each of the 8), with the upper half
                // replaced, with the lower half replaced -- and the same with the roles exchanged.  A comparison or a
                // "same endpoint" shortcut that looks at part of the address only is wrong exactly here.
                for s in &specials {
                    let mut variants: Vec<[u16; 8]> = Vec::new();
                    for g in 0..8 {
                        let mut d = *s;
                        d[g] ^= 0x0101;
                        variants.push(d);
                    }
                    let mut hi = *s;
                    hi[..4].copy_from_slice(&[0x2001, 0x0db8, 0xaaaa, 0xbbbb]);
                    variants.push(hi);
                    let mut lo = *s;
                    lo[4..].copy_from_slice(&[0xcccc, 0xdddd, 0x0, 0x9]);
                    variants.push(lo);
                    for d in &variants {
                        Self::emit(&AV::V6 { src: groups_to_octets(*s), dst: groups_to_octets(*d), sport: 40000, dport: 40001 }, &mut buf, f);
                        Self::emit(&AV::V6 { src: groups_to_octets(*d), dst: groups_to_octets(*s), sport: 40001, dport: 40000 }, &mut buf, f);
                    }
                }
            }
            _ => {
                if self.with_unix {
                    let all: [u8; 108] = core::array::from_fn(|i| (i as u8).wrapping_mul(2).wrapping_add(1));
                    let all2: [u8; 108] = core::array::from_fn(|i| 255 - i as u8);
                    Self::emit(&AV::Unix { src: all, dst: all2 }, &mut buf, f);
                    Self::emit(&AV::Unix { src: [0; 108], dst: [0; 108] }, &mut buf, f);
                    // realistic path shapes: filesystem path, abstract socket (leading NUL), '@' spelling, full-length path
                    let shapes: Vec<Vec<u8>> = vec![b"/var/run/haproxy.sock".to_vec(), b"\0abstract-7f3a".to_vec(), b"@client-7f3a".to_vec(), b"@".to_vec(), vec![b'p'; 108], b"a\0b".to_vec(), b"./x".to_vec()];
                    for a in &shapes {
                        for bb in &shapes {
                            let mut s108 = [0u8; 108];
                            s108[..a.len()].copy_from_slice(a);
                            let mut d108 = [0u8; 108];
                            d108[..bb.len()].copy_from_slice(bb);
                            Self::emit(&AV::Unix { src: s108, dst: d108 }, &mut buf, f);
                        }
                    }
                    for pos in 0..216 {
                        for v in [0x01u8, 0x80, 0xff] {
                            let mut t = [0u8; 216];
                            t[pos] = v;
                            Self::emit(&AV::Unix { src: t[..108].try_into().unwrap(), dst: t[108..].try_into().unwrap() }, &mut buf, f);
                        }
                    }
                }
            }
        }
    }
}

/// Builds the library's address structs without struct literals (a new public field would break the harness
/// build) and without trusting the constructors' argument order (C19 checks that separately): construct, then
/// assign every field.
pub fn make_v4(src: [u8; 4], dst: [u8; 4], sport: u16, dport: u16) -> ppp::v1::IPv4 {
    let mut a = ppp::v1::IPv4::new(src, dst, sport, dport);
    a.source_address = std::net::Ipv4Addr::from(src);
    a.destination_address = std::net::Ipv4Addr::from(dst);
    a.source_port = sport;
    a.destination_port = dport;
    a
}

pub fn make_v6(src: [u8; 16], dst: [u8; 16], sport: u16, dport: u16) -> ppp::v1::IPv6 {
    let mut a = ppp::v1::IPv6::new(src, dst, sport, dport);
    a.source_address = std::net::Ipv6Addr::from(src);
    a.destination_address = std::net::Ipv6Addr::from(dst);
    a.source_port = sport;
    a.destination_port = dport;
    a
}

pub fn make_unix(src: [u8; 108], dst: [u8; 108]) -> ppp::v2::Unix {
    let mut u = ppp::v2::Unix::new(src, dst);
    u.source = src;
    u.destination = dst;
    u
}
