//! C20 — every encodable value appends exactly its wire encoding and reports its size.
//!
//! Case encoding: [prefill code][tag][parameters]
//!   prefill code: 0 -> 0 bytes, 1 -> 1, 2 -> 16, 3 -> 1000, 4 -> limit - |encoding| (limit = 16 + 65535),
//!                 5 -> limit - 1, 6 -> limit - 3, 7 -> limit - 100   (the value straddles the limit)
//!   tag 1 integer [type 0..=11][value 0..=5]      tag 2 address value (values::AV)
//!   tag 3 TypeLengthValue [kind][len x3]          tag 4 (u8, &[u8]) [kind][len x3]
//!   tag 5 (Type, &[u8]) [type index][len x3]      tag 6 byte slice [len x3]
//!   tag 7 TypeLengthValues section [raw bytes]    tag 8 Type [type index]
//!   tag 9 &TypeLengthValue [kind][len x3]
//!   tag 12 TypeLengthValues section of a given length [len x3] (zeros with a few TLV heads)
//!   tag 11 two TLVs written one after the other into the same writer [k1][l1][v1..][k2][l2][v2..]
//!   tag 10 TLV with an explicit value [kind][value bytes]: written as TypeLengthValue, (u8,&[u8]) and &TypeLengthValue

use super::c07::{real_addresses, TYPES};
use super::values::{AddrValues, AV};
use crate::engine::*;
use crate::oracle::enc;
use crate::universe::{v2 as u2, ListUniverse};
use ppp::v2::{TypeLengthValue, TypeLengthValues, WriteToHeader, Writer};
use serde_json::{json, Value};

pub fn def() -> PropDef {
    PropDef {
        id: "C20",
        title: "Every encodable value appends exactly its wire encoding and reports its size",
        judge,
        run,
        shrink: Shrink::None,
        render,
        rule: "every WriteToHeader type: 12 integer types x {min, -1/max, 0, 1, max, byte pattern}; every address value of UA; TypeLengthValue / (u8,&[u8]) / (Type,&[u8]) / &TypeLengthValue for every type byte at length 0 and for three type bytes at value lengths L (quick: 0..=300 and 65533..=65536; thorough: every 0..=65536); [u8] at the same lengths; TLV sections (all strings over a 5-byte alphabet up to length 6); every Type; each written into writers pre-filled with 0, 1, 16, 1000, limit-|encoding|, limit-1, limit-3 and limit-100 bytes (the last three make the value straddle the limit); finish() must be prefill ++ encoding, the return value |encoding|, to_bytes() the encoding; oversized values must be refused leaving the writer unchanged; non-trivial = every case; distinct = hash of the case",
        assumptions: &["'a writer that is below its size limit' is read literally: the writer holds fewer than 16 + 65535 bytes before the write; the whole encoding must then be appended even if it carries the buffer past the limit (the trait documentation says the total may exceed u16::MAX); nothing is asserted about writers already at or over the limit"],
    }
}

const LIMIT: usize = 16 + 65535;

fn big() -> &'static [u8] {
    static B: std::sync::OnceLock<Vec<u8>> = std::sync::OnceLock::new();
    B.get_or_init(|| (0..65537usize).map(|i| ((i * 11 + 7) % 256) as u8).collect())
}

fn len3(b: &[u8]) -> usize {
    ((b[0] as usize) << 16) | ((b[1] as usize) << 8) | b[2] as usize
}

fn render(case: &[u8]) -> Value {
    json!({"prefill_code": case.first(), "tag": case.get(1), "params": hex(&case[case.len().min(2)..case.len().min(40)]), "len": case.len()})
}

const INT_TYPES: [&str; 12] = ["u8", "u16", "u32", "u64", "u128", "usize", "i8", "i16", "i32", "i64", "i128", "isize"];

/// Run one write against the reference.  `value` is written through `write`; `expected` is its encoding
/// (None = must be refused).
fn run_one(acc: &mut Acc, what: &str, prefill_code: u8, expected: Option<Vec<u8>>, write: &dyn Fn(&mut Writer) -> std::io::Result<usize>, to_bytes: &dyn Fn() -> std::io::Result<Vec<u8>>) {
    let enc_len = expected.as_ref().map(|e| e.len()).unwrap_or(0);
    let prefill_len = match prefill_code {
        0 => 0,
        1 => 1,
        2 => 16,
        3 => 1000,
        4 => LIMIT.saturating_sub(enc_len),
        5 => LIMIT - 1,
        6 => LIMIT - 3,
        _ => LIMIT - 100,
    };
    // precondition of the property: the writer is below its size limit (it holds fewer than 16 + 65535 bytes)
    if prefill_len >= LIMIT {
        acc.class("writer not below its limit", "-");
        return;
    }
    let prefill: Vec<u8> = (0..prefill_len).map(|i| ((i * 13 + 5) % 256) as u8).collect();
    let mut w = Writer::from(prefill.clone());
    let r = write(&mut w);
    let out = w.finish();
    acc.eval(2);
    acc.validated(2);
    match &expected {
        Some(e) => {
            acc.class("encodable", if r.is_ok() { "Ok" } else { "Err" });
            let ok_ret = matches!(&r, Ok(n) if *n == e.len());
            let ok_out = out.len() == prefill.len() + e.len() && out[..prefill.len()] == prefill[..] && out[prefill.len()..] == e[..];
            if !ok_out {
                let at = out.iter().zip(prefill.iter().chain(e.iter())).position(|(a, b)| a != b).unwrap_or(out.len().min(prefill.len() + e.len()));
                acc.violation("appended-bytes-differ", what, format!("prefill ({} bytes) ++ {} encoded bytes", prefill.len(), e.len()), format!("{} bytes, first difference at {} (return value {:?})", out.len(), at, r.as_ref().map_err(|x| x.kind())));
            } else if !ok_ret {
                acc.violation("return-value-wrong", what, format!("Ok({})", e.len()), format!("{:?}", r.as_ref().map_err(|x| x.kind())));
            }
            // the same value once more into the same writer (still below its limit), and -- for an empty prefill -- the
            // whole sequence into `Writer::default()`, which must behave like `Writer::from(Vec::new())`
            if ok_out && ok_ret {
                let mut writers: Vec<(&str, Writer)> = vec![("Writer::from(prefill), second write", Writer::from(out.clone()))];
                if prefill.is_empty() {
                    let mut d = Writer::default();
                    let r1 = write(&mut d);
                    acc.eval(1);
                    if !matches!(&r1, Ok(n) if *n == e.len()) {
                        acc.violation("default-writer-differs", what, format!("Ok({}) as with Writer::from(Vec::new())", e.len()), format!("{:?}", r1.as_ref().map_err(|x| x.kind())));
                    }
                    writers.push(("Writer::default(), second write", d));
                }
                for (how, mut w2) in writers {
                    let before = out.len();
                    if before >= LIMIT {
                        continue;
                    }
                    let r2 = write(&mut w2);
                    let out2 = w2.finish();
                    acc.eval(1);
                    let fine = matches!(&r2, Ok(n) if *n == e.len()) && out2.len() == before + e.len() && out2[..before] == out[..] && out2[before..] == e[..];
                    if !fine {
                        acc.violation("second-write-differs", &format!("{} [{}]", what, how), format!("Ok({}), {} + {} bytes", e.len(), before, e.len()), format!("{:?}, {} bytes", r2.as_ref().map_err(|x| x.kind()), out2.len()));
                    }
                }
            }
            match to_bytes() {
                Ok(b) if b == *e => {}
                other => acc.violation("to_bytes-differs", what, format!("Ok({} bytes)", e.len()), format!("{:?}", other.as_ref().map(|b| b.len()).map_err(|x| x.kind()))),
            }
        }
        None => {
            acc.class("oversized", if r.is_ok() { "Ok" } else { "Err" });
            if r.is_ok() || out != prefill {
                acc.violation("oversized-not-refused-cleanly", what, "Err, writer unchanged".into(), format!("{:?}, writer grew by {} bytes", r.as_ref().map_err(|x| x.kind()), out.len() as isize - prefill.len() as isize));
            }
            if to_bytes().is_ok() {
                acc.violation("oversized-not-refused-cleanly", what, "to_bytes() -> Err".into(), "Ok".into());
            }
        }
    }
}

macro_rules! int_case {
    ($acc:expr, $pc:expr, $t:ty, $idx:expr) => {{
        let vals: [$t; 6] = [<$t>::MIN, (0 as $t).wrapping_sub(1), 0, 1, <$t>::MAX, (0x0102030405060708090a0b0c0d0e0f10u128 as $t)];
        let v = vals[$idx as usize % 6];
        let e = enc::be_unsigned(v as u128, std::mem::size_of::<$t>());
        run_one($acc, concat!(stringify!($t), "::write_to"), $pc, Some(e.clone()), &|w| v.write_to(w), &|| v.to_bytes());
        run_one($acc, concat!("&", stringify!($t), "::write_to"), $pc, Some(e), &|w| (&v).write_to(w), &|| (&v).to_bytes());
    }};
}

pub fn judge(case: &[u8], acc: &mut Acc) {
    if case.len() < 2 {
        return;
    }
    acc.nontrivial();
    let res = guard(|| check(case, acc));
    if let Err(p) = res {
        acc.violation("write-panicked", "WriteToHeader", "normal return".into(), p);
    }
}

fn check(case: &[u8], acc: &mut Acc) {
    let pc = case[0];
    let p = &case[2..];
    match case[1] {
        1 if p.len() >= 2 => match p[0] {
            0 => int_case!(acc, pc, u8, p[1]),
            1 => int_case!(acc, pc, u16, p[1]),
            2 => int_case!(acc, pc, u32, p[1]),
            3 => int_case!(acc, pc, u64, p[1]),
            4 => int_case!(acc, pc, u128, p[1]),
            5 => int_case!(acc, pc, usize, p[1]),
            6 => int_case!(acc, pc, i8, p[1]),
            7 => int_case!(acc, pc, i16, p[1]),
            8 => int_case!(acc, pc, i32, p[1]),
            9 => int_case!(acc, pc, i64, p[1]),
            10 => int_case!(acc, pc, i128, p[1]),
            _ => int_case!(acc, pc, isize, p[1]),
        },
        2 => {
            if let Some((av, _)) = AV::decode(p) {
                let a = real_addresses(&av);
                let e = av.block();
                run_one(acc, "Addresses::write_to", pc, Some(e.clone()), &|w| a.write_to(w), &|| a.to_bytes());
                run_one(acc, "&Addresses::write_to", pc, Some(e), &|w| (&a).write_to(w), &|| (&a).to_bytes());
            }
        }
        3 | 4 | 5 | 9 if p.len() >= 4 => {
            let len = len3(&p[1..4]).min(65537);
            let value = &big()[..len];
            let kind = if case[1] == 5 { TYPES[p[0] as usize % 12].1 } else { p[0] };
            let e = enc::tlv(kind, value);
            match case[1] {
                3 => {
                    let t = TypeLengthValue::new(p[0], value);
                    run_one(acc, "TypeLengthValue::write_to", pc, e.clone(), &|w| t.write_to(w), &|| t.to_bytes());
                    let o = t.to_owned();
                    run_one(acc, "TypeLengthValue::to_owned().write_to", pc, e, &|w| o.write_to(w), &|| o.to_bytes());
                }
                4 => {
                    let t = (p[0], value);
                    run_one(acc, "(u8, &[u8])::write_to", pc, e, &|w| t.write_to(w), &|| t.to_bytes());
                }
                5 => {
                    let t = (TYPES[p[0] as usize % 12].0, value);
                    run_one(acc, "(Type, &[u8])::write_to", pc, e, &|w| t.write_to(w), &|| t.to_bytes());
                }
                _ => {
                    let t = TypeLengthValue::new(p[0], value);
                    let r = &t;
                    run_one(acc, "&TypeLengthValue::write_to", pc, e, &|w| r.write_to(w), &|| r.to_bytes());
                }
            }
        }
        6 if p.len() >= 3 => {
            let len = len3(&p[0..3]).min(65537);
            let value = &big()[..len];
            let e = if len <= 65535 { Some(value.to_vec()) } else { None };
            run_one(acc, "[u8]::write_to", pc, e, &|w| value.write_to(w), &|| value.to_bytes());
        }
        7 => {
            let s = TypeLengthValues::from(p);
            run_one(acc, "TypeLengthValues::write_to", pc, Some(p.to_vec()), &|w| s.write_to(w), &|| s.to_bytes());
            // the section is still the whole section after some of it has been iterated
            let mut it = TypeLengthValues::from(p);
            for _ in 0..3 {
                if it.next().is_none() {
                    break;
                }
                run_one(acc, "TypeLengthValues::write_to (after next())", pc, Some(p.to_vec()), &|w| it.write_to(w), &|| it.to_bytes());
            }
        }
        12 if p.len() >= 3 => {
            let len = len3(&p[0..3]).min(200_000);
            let bytes: Vec<u8> = (0..len).map(|i| if i % 1000 == 0 { 4 } else { 0 }).collect();
            let s = TypeLengthValues::from(&bytes[..]);
            run_one(acc, "TypeLengthValues::write_to (large section)", pc, Some(bytes.clone()), &|w| s.write_to(w), &|| s.to_bytes());
        }
        11 if p.len() >= 2 => {
            let (k1, l1) = (p[0], p[1] as usize);
            if p.len() < 2 + l1 + 2 {
                return;
            }
            let v1 = &p[2..2 + l1];
            let q = &p[2 + l1..];
            let (k2, l2) = (q[0], q[1] as usize);
            if q.len() < 2 + l2 {
                return;
            }
            let v2 = &q[2..2 + l2];
            let e: Vec<u8> = [enc::tlv(k1, v1).unwrap(), enc::tlv(k2, v2).unwrap()].concat();
            let first = enc::tlv(k1, v1).unwrap().len();
            // struct then pair, pair then struct: the second write must append after the first, which must stay as written
            let (a, b) = (TypeLengthValue::new(k1, v1), (k2, v2));
            run_one(acc, "TypeLengthValue then (u8,&[u8]) into one Writer", pc, Some(e.clone()), &|w| { let n = a.write_to(w)?; if n != first { return Ok(usize::MAX); } Ok(n + b.write_to(w)?) }, &|| Ok(e.clone()));
            let (a2, b2) = ((k1, v1), TypeLengthValue::new(k2, v2));
            run_one(acc, "(u8,&[u8]) then TypeLengthValue into one Writer", pc, Some(e.clone()), &|w| { let n = a2.write_to(w)?; if n != first { return Ok(usize::MAX); } Ok(n + b2.write_to(w)?) }, &|| Ok(e.clone()));
        }
        10 if !p.is_empty() => {
            let (kind, value) = (p[0], &p[1..]);
            let e = enc::tlv(kind, value);
            let t = TypeLengthValue::new(kind, value);
            run_one(acc, "TypeLengthValue::write_to", pc, e.clone(), &|w| t.write_to(w), &|| t.to_bytes());
            let pair = (kind, value);
            run_one(acc, "(u8, &[u8])::write_to", pc, e.clone(), &|w| pair.write_to(w), &|| pair.to_bytes());
            let r = &t;
            run_one(acc, "&TypeLengthValue::write_to", pc, e, &|w| r.write_to(w), &|| r.to_bytes());
        }
        8 if !p.is_empty() => {
            let (t, code) = TYPES[p[0] as usize % 12];
            run_one(acc, "Type::write_to", pc, Some(vec![code]), &|w| t.write_to(w), &|| t.to_bytes());
        }
        _ => {}
    }
}

fn case(pc: u8, tag: u8, params: &[u8]) -> Vec<u8> {
    let mut c = vec![pc, tag];
    c.extend_from_slice(params);
    c
}

fn l3(n: usize) -> [u8; 3] {
    [(n >> 16) as u8, (n >> 8) as u8, n as u8]
}

pub fn cases(thorough: bool) -> Vec<Vec<u8>> {
    let mut out = Vec::new();
    let prefills = [0u8, 1, 2, 3, 4, 5, 6, 7];
    for &pc in &prefills {
        for t in 0..12u8 {
            for v in 0..6u8 {
                out.push(case(pc, 1, &[t, v]));
            }
        }
        for t in 0..12u8 {
            out.push(case(pc, 8, &[t]));
        }
        // every type byte at length 0 and 1
        for k in 0..=255u8 {
            for l in [0usize, 1] {
                let ll = l3(l);
                out.push(case(pc, 3, &[k, ll[0], ll[1], ll[2]]));
                out.push(case(pc, 4, &[k, ll[0], ll[1], ll[2]]));
                out.push(case(pc, 9, &[k, ll[0], ll[1], ll[2]]));
            }
        }
        for t in 0..12u8 {
            for l in [0usize, 1, 255, 256] {
                let ll = l3(l);
                out.push(case(pc, 5, &[t, ll[0], ll[1], ll[2]]));
            }
        }
    }
    // large TLV sections given as raw slices (their len() accessor is a u16)
    for l in [255usize, 256, 65534, 65535, 65536, 65537, 70000, 131072] {
        for pc in [0u8, 1, 5] {
            out.push(case(pc, 12, &l3(l)));
        }
    }
    // three type bytes and slices at a range of lengths
    let lens: Vec<usize> = if thorough { (0..=65536).collect() } else { (0..=300).chain(65533..=65536).chain([511, 512, 4095, 4096, 32767, 32768]).collect() };
    for &l in &lens {
        let ll = l3(l);
        let pcs: &[u8] = if thorough && l > 300 && l < 65500 && l % 64 != 0 { &[0, 4, 5] } else { &prefills };
        for &pc in pcs {
            for k in [0x00u8, 0x04, 0xff] {
                out.push(case(pc, 3, &[k, ll[0], ll[1], ll[2]]));
                if k == 0x04 {
                    out.push(case(pc, 4, &[k, ll[0], ll[1], ll[2]]));
                    out.push(case(pc, 5, &[3, ll[0], ll[1], ll[2]]));
                    out.push(case(pc, 9, &[k, ll[0], ll[1], ll[2]]));
                }
            }
            out.push(case(pc, 6, &ll));
        }
    }
    out
}

/// TLV sections from the byte universe, as tag-7 cases with every prefill.
pub struct Sections {
    pub n: usize,
}

impl Universe for Sections {
    fn name(&self) -> String {
        "UW-sections".into()
    }
    fn bound(&self) -> Value {
        json!({"mode": "every string over {00,01,02,04,FF} up to length n as a TypeLengthValues section x 5 prefills", "n": self.n})
    }
    fn units(&self) -> usize {
        u2::tlv_byte_universe(self.n).units()
    }
    fn roots(&self) -> u64 {
        1
    }
    fn run_unit(&self, u: usize, f: &mut dyn FnMut(&[u8])) {
        let inner = u2::tlv_byte_universe(self.n);
        let mut buf = Vec::new();
        inner.run_unit(u, &mut |s: &[u8]| {
            for pc in [0u8, 2, 4, 5, 6] {
                buf.clear();
                buf.push(pc);
                buf.push(7);
                buf.extend_from_slice(s);
                f(&buf);
            }
        });
    }
}

pub fn two_write_cases() -> Vec<Vec<u8>> {
    let kinds = [0x01u8, 0x02, 0x03, 0x04, 0x05, 0x20, 0x21, 0x25, 0xee];
    let values: Vec<Vec<u8>> = vec![vec![], vec![1, 0, 0, 0, 0], vec![0; 5], vec![0; 4], b"TLSv1.3".to_vec(), b"a.".to_vec(), (0..200u8).collect()];
    let mut out = Vec::new();
    for pc in [0u8, 2, 4] {
        for &k1 in &kinds {
            for v1 in &values {
                for &k2 in &kinds {
                    for v2 in &values {
                        let mut c = vec![pc, 11, k1, v1.len() as u8];
                        c.extend_from_slice(v1);
                        c.push(k2);
                        c.push(v2.len() as u8);
                        c.extend_from_slice(v2);
                        out.push(c);
                    }
                }
            }
        }
    }
    out
}

/// TLVs whose value is every string over {00,01,02,03,FF,own type byte} up to length n (tag 10).
pub struct SmallTlvValues {
    pub n: usize,
    pub all_kinds: bool,
}

impl SmallTlvValues {
    fn kinds(&self) -> Vec<u8> {
        if self.all_kinds {
            (0..=255u8).collect()
        } else {
            vec![0x00, 0x01, 0x03, 0x04, 0x05, 0x20, 0x21, 0x30, 0xee, 0xff]
        }
    }
}

impl Universe for SmallTlvValues {
    fn name(&self) -> String {
        "UW-small-values".into()
    }
    fn bound(&self) -> Value {
        json!({"mode": "TLV / pair / &TLV whose value is every string over {00,01,02,03,FF,own type byte,a,.} of length <= n, prefills 0 and 16", "n": self.n, "kinds": self.kinds().len()})
    }
    fn units(&self) -> usize {
        self.kinds().len()
    }
    fn roots(&self) -> u64 {
        self.kinds().len() as u64
    }
    fn run_unit(&self, u: usize, f: &mut dyn FnMut(&[u8])) {
        let kind = self.kinds()[u];
        let sigma = [0x00u8, 0x01, 0x02, 0x03, 0xff, kind, b'a', b'.'];
        fn rec(value: &mut Vec<u8>, left: usize, sigma: &[u8; 8], emit: &mut dyn FnMut(&[u8])) {
            emit(value);
            if left == 0 {
                return;
            }
            for &b in sigma {
                value.push(b);
                rec(value, left - 1, sigma, emit);
                value.pop();
            }
        }
        let mut value = Vec::new();
        let mut buf = Vec::new();
        rec(&mut value, self.n, &sigma, &mut |v: &[u8]| {
            for pc in [0u8, 2] {
                buf.clear();
                buf.push(pc);
                buf.push(10);
                buf.push(kind);
                buf.extend_from_slice(v);
                f(&buf);
            }
        });
    }
}

/// Address values, as tag-2 cases with every prefill.
pub struct AddrCases {
    pub inner: AddrValues,
}

impl Universe for AddrCases {
    fn name(&self) -> String {
        "UW-addresses".into()
    }
    fn bound(&self) -> Value {
        json!({"addresses": self.inner.bound(), "prefills": 8})
    }
    fn units(&self) -> usize {
        self.inner.units()
    }
    fn roots(&self) -> u64 {
        1
    }
    fn run_unit(&self, u: usize, f: &mut dyn FnMut(&[u8])) {
        let mut buf = Vec::new();
        self.inner.run_unit(u, &mut |av: &[u8]| {
            for pc in [0u8, 1, 2, 3, 4, 5, 6, 7] {
                buf.clear();
                buf.push(pc);
                buf.push(2);
                buf.extend_from_slice(av);
                f(&buf);
            }
        });
    }
}

pub fn run(run: &Run) {
    let thorough = run.tier == Tier::Thorough;
    run.explore(&ListUniverse { name: "UW-values".into(), what: "integers, Types, TLVs / tuples / slices over type bytes and value lengths x prefills".into(), cases: cases(thorough) });
    run.explore(&AddrCases { inner: AddrValues { per_group: false, with_unix: true } });
    run.explore(&Sections { n: run.tier.pick(6, 8) });
    run.explore(&SmallTlvValues { n: run.tier.pick(4, 5), all_kinds: thorough });
    run.explore(&ListUniverse { name: "UW-two-writes".into(), what: "every ordered pair of TLVs over 9 type bytes x 7 values (empty, SSL-shaped, zeros, text, 300 bytes) written one after the other into one writer, 3 prefills".into(), cases: two_write_cases() });
}
