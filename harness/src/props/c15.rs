//! C15 — v1 header views reconstruct the header text.

use super::common::*;
use crate::engine::*;
use ppp::v1;

pub fn def() -> PropDef {
    PropDef {
        id: "C15",
        title: "v1 header views reconstruct the header text",
        judge,
        run,
        shrink: Shrink::Bytes,
        render: render_bytes,
        rule: "every header the real parser accepts in the v1 slot / byte / length / UTF-8 universes (bytes, text and str::parse entry points, borrowed and owned): protocol() must be the second field of the input line and match the address kind; addresses_str() must be the text between keyword and CRLF minus one leading space; `PROXY ` + protocol + between + CRLF must equal the header text and to_string(); non-trivial = accepted; distinct = hash of the input",
        assumptions: &["`between` is computed by the harness from the input bytes, not from the views under test"],
    }
}

fn check(acc: &mut Acc, entry: &str, input: &[u8], h: &v1::Header) {
    let line = h.header.as_bytes();
    acc.validated(1);
    // the second SP-separated field of the input line
    let cr = match input.iter().position(|&b| b == b'\r') {
        Some(c) => c,
        None => {
            acc.violation("accepted-line-without-CR", entry, "an accepted header ends with CRLF".into(), escape(line));
            return;
        }
    };
    let body = &input[..cr];
    let second: &[u8] = body.split(|&b| b == b' ').nth(1).unwrap_or(b"");
    let proto = h.protocol();
    let kind = match h.addresses {
        v1::Addresses::Unknown => "UNKNOWN",
        v1::Addresses::Tcp4(_) => "TCP4",
        v1::Addresses::Tcp6(_) => "TCP6",
    };
    acc.eval(3);
    if proto.as_bytes() != second || proto != kind {
        acc.violation("protocol-view-wrong", entry, format!("{:?} (second field) = {:?} (address kind)", escape(second), kind), format!("{:?}", proto));
        return;
    }
    let start = 6 + second.len();
    if body.len() < start || !body.starts_with(b"PROXY ") {
        acc.violation("accepted-line-malformed", entry, "PROXY <protocol>…".into(), escape(body));
        return;
    }
    let between = &body[start..];
    let expected_addr = if between.first() == Some(&b' ') { &between[1..] } else { between };
    let got = h.addresses_str();
    if got.as_bytes() != expected_addr {
        acc.violation("addresses-view-wrong", entry, format!("{:?}", escape(expected_addr)), format!("{:?}", got));
    }
    // re-assembly
    let mut re = Vec::with_capacity(line.len());
    re.extend_from_slice(b"PROXY ");
    re.extend_from_slice(proto.as_bytes());
    if !got.is_empty() || between.first() == Some(&b' ') {
        re.push(b' ');
    }
    re.extend_from_slice(got.as_bytes());
    re.extend_from_slice(b"\r\n");
    let printed = h.to_string();
    if re != line || printed.as_bytes() != line || line != &input[..cr + 2] {
        acc.violation(
            "reassembly-differs",
            entry,
            format!("{:?}", escape(&input[..(cr + 2).min(input.len())])),
            format!("views re-assemble to {:?}; header text {:?}; to_string() {:?}", escape(&re), escape(line), escape(printed.as_bytes())),
        );
    }
}

pub fn judge(input: &[u8], acc: &mut Acc) {
    let r = v1_bytes(input);
    acc.eval(1);
    match &r {
        Ok(Ok(h)) => {
            acc.class("accepted", v1_ok_name(h));
            acc.nontrivial();
            let res = guard(|| {
                check(acc, "try_from(&[u8]) -> views", input, h);
                let o = h.to_owned();
                check(acc, "try_from(&[u8]) -> to_owned() -> views", input, &o);
            });
            if let Err(p) = res {
                acc.violation("view-panicked", "protocol()/addresses_str()/to_string()", "normal return".into(), p);
            }
        }
        _ => acc.class("not-accepted", v1b_name(&r)),
    }
    if let Ok(s) = std::str::from_utf8(input) {
        let r = v1_str(s);
        acc.eval(1);
        if let Ok(Ok(h)) = &r {
            if let Err(p) = guard(|| check(acc, "try_from(&str) -> views", input, h)) {
                acc.violation("view-panicked", "protocol()/addresses_str()/to_string()", "normal return".into(), p);
            }
        }
        // the owned header that `str::parse` returns is a header like any other: its views are those of the input line
        if let Ok(Ok(h)) = guard(|| s.parse::<v1::Header<'static>>()) {
            acc.eval(1);
            if let Err(p) = guard(|| check(acc, "str::parse::<Header>() -> views", input, &h)) {
                acc.violation("view-panicked", "protocol()/addresses_str()/to_string()", "normal return".into(), p);
            }
        }
    }
}

pub fn run(run: &Run) {
    let b = v1_bounds(run.tier);
    explore_all(run, &v1_universes(&b));
}
