//! C11 — TLV iteration yields exactly the standard type-length-value walk and then stops.

use super::common::*;
use crate::engine::*;
use crate::oracle::tlv::{self as otlv, Item};
use crate::oracle::v2::{FAMILY_SIZE, SIG};
use crate::universe::v2 as u2;
use ppp::v2;
use serde_json::{json, Value};

pub fn def() -> PropDef {
    PropDef {
        id: "C11",
        title: "TLV iteration yields exactly the standard type-length-value walk and then stops",
        judge,
        run,
        shrink: Shrink::Bytes,
        render: render_bytes,
        rule: "every string over {00,01,02,04,FF} up to length n and every truncation of structured 1-3 item sequences (value lengths 0,1,2,255,256,257, 65534, 65535) is iterated as a raw section (TypeLengthValues::from) and as the TLV section of a header of each of the four families (Header::tlvs), with next() driven 3 calls past the end; compared item by item with the reference walk; non-trivial = the reference walk has at least one full item or an overrun; distinct = hash of the section",
        assumptions: &["the 'random longer ones' of the property's quantifier are not sampled: structured long sections with every truncation point are enumerated instead"],
    }
}

/// Embeds every section over SIGMA_T up to length n in a header of each family (cases are whole headers).
pub struct EmbeddedTlv {
    pub n: usize,
}

/// Same, over the text alphabet {00, 02, a, '.', '-'}.
pub struct EmbeddedText {
    pub n: usize,
}

/// `family` 0..=3 embeds in a PROXY header of that family; 4 is LOCAL with the unspecified family.
pub fn embed(family: u8, section: &[u8], out: &mut Vec<u8>) -> bool {
    let local = family == 4;
    let family = if local { 0 } else { family };
    let size = FAMILY_SIZE[family as usize];
    let total = size + section.len();
    if total > 65535 {
        return false;
    }
    out.clear();
    out.extend_from_slice(&SIG);
    out.push(if local { 0x20 } else { 0x21 });
    out.push(if local { 0x00 } else { (family << 4) | 1 });
    out.push((total >> 8) as u8);
    out.push(total as u8);
    out.extend((0..size).map(u2::pattern));
    out.extend_from_slice(section);
    true
}

impl Universe for EmbeddedTlv {
    fn name(&self) -> String {
        "UT-byte/embedded".into()
    }
    fn bound(&self) -> Value {
        json!({"mode": "every string over {00,01,02,04,FF} of length <= n as the payload after the address block of a PROXY header of each family and of a LOCAL/unspecified header", "n": self.n})
    }
    fn units(&self) -> usize {
        5 * u2::tlv_byte_universe(self.n).units()
    }
    fn roots(&self) -> u64 {
        5
    }
    fn run_unit(&self, u: usize, f: &mut dyn FnMut(&[u8])) {
        let inner = u2::tlv_byte_universe(self.n);
        let per = inner.units();
        let family = (u / per) as u8;
        let mut buf = Vec::with_capacity(300);
        inner.run_unit(u % per, &mut |section: &[u8]| {
            // the unspecified family has no TLV section: its whole payload is the address view
            if embed(family, section, &mut buf) {
                f(&buf);
            }
        });
    }
}

impl Universe for EmbeddedText {
    fn name(&self) -> String {
        "UT-byte/text/embedded".into()
    }
    fn bound(&self) -> Value {
        json!({"mode": "every string over {00,02,'a','.','-'} of length <= n as the payload after the address block of a header of each family (and LOCAL/unspec)", "n": self.n})
    }
    fn units(&self) -> usize {
        5 * u2::tlv_text_universe(self.n).units()
    }
    fn roots(&self) -> u64 {
        5
    }
    fn run_unit(&self, u: usize, f: &mut dyn FnMut(&[u8])) {
        let inner = u2::tlv_text_universe(self.n);
        let per = inner.units();
        let family = (u / per) as u8;
        let mut buf = Vec::with_capacity(300);
        inner.run_unit(u % per, &mut |section: &[u8]| {
            if embed(family, section, &mut buf) {
                f(&buf);
            }
        });
    }
}

pub struct EmbeddedStructured {
    list: crate::universe::ListUniverse,
}

impl EmbeddedStructured {
    pub fn new(thorough: bool) -> Self {
        EmbeddedStructured { list: u2::tlv_structured_universe(thorough) }
    }
}

impl Universe for EmbeddedStructured {
    fn name(&self) -> String {
        "UT-structured/embedded".into()
    }
    fn bound(&self) -> Value {
        json!({"mode": "structured TLV sequences with every truncation point, embedded in a header of each family"})
    }
    fn units(&self) -> usize {
        5 * 64
    }
    fn roots(&self) -> u64 {
        5
    }
    fn run_unit(&self, u: usize, f: &mut dyn FnMut(&[u8])) {
        let list = &self.list;
        let family = (u / 64) as u8;
        let part = u % 64;
        let mut buf = Vec::new();
        for (i, section) in list.cases.iter().enumerate() {
            if i % 64 == part && embed(family, section, &mut buf) {
                f(&buf);
            }
        }
    }
}

/// Headers whose payload is within `span` bytes of the 65535-byte maximum, with *well-formed* TLV sections of
/// several shapes sized to the byte: the last items start in the final bytes of the largest possible header, which
/// is where a size limit that forgets the 16 fixed bytes, a 16-bit cursor or a clamped length first goes wrong.
pub struct NearMaxStructured {
    pub span: usize,
}

pub const NEAR_MAX_LAYOUTS: usize = 6;

fn push_tlv(out: &mut Vec<u8>, kind: u8, n: usize) {
    out.push(kind);
    out.push((n >> 8) as u8);
    out.push(n as u8);
    let base = out.len();
    out.extend((0..n).map(|i| u2::pattern(base + i)));
}

/// a well-formed section of exactly `s` bytes (s >= 64) in one of NEAR_MAX_LAYOUTS shapes
pub fn near_max_section(s: usize, layout: usize, out: &mut Vec<u8>) {
    out.clear();
    match layout {
        0 => push_tlv(out, 0xe0, s - 3),
        1 => {
            push_tlv(out, 0xe1, s - 3 - 3 * 4);
            for k in 0..3 {
                push_tlv(out, 0x04 + k, 1);
            }
        }
        2 => {
            for k in 0..8 {
                push_tlv(out, 0xe2 + k, 1);
            }
            push_tlv(out, 0x05, s - 8 * 4 - 3);
        }
        3 | 5 => {
            // runs of equal mid-size items, one remainder item, then two empty ones at the very end
            let item = if layout == 3 { 1024 } else { 255 };
            let mut left = s - 6;
            while left >= 2 * (item + 3) {
                push_tlv(out, 0x30, item);
                left -= item + 3;
            }
            push_tlv(out, 0x31, left - 3);
            push_tlv(out, 0x04, 0);
            push_tlv(out, 0x04, 0);
        }
        _ => {
            // empty items only, the first one absorbing the remainder
            push_tlv(out, 0x04, s % 3);
            for _ in 1..s / 3 {
                push_tlv(out, 0x04, 0);
            }
        }
    }
    debug_assert_eq!(out.len(), s);
}

impl Universe for NearMaxStructured {
    fn name(&self) -> String {
        "UT-structured/near-max".into()
    }
    fn bound(&self) -> Value {
        json!({"mode": "headers of each family (and LOCAL/unspecified) with every payload length in 65535-span..=65535 whose TLV section is well-formed and sized to the byte, in 6 shapes (one item; big then 3 short; 8 short then big; 1 KiB run + remainder + 2 empty; empty items only; 255-byte run + remainder + 2 empty)", "span": self.span})
    }
    fn units(&self) -> usize {
        5 * (self.span + 1)
    }
    fn roots(&self) -> u64 {
        5
    }
    fn run_unit(&self, u: usize, f: &mut dyn FnMut(&[u8])) {
        let family = (u / (self.span + 1)) as u8;
        let total = 65535 - (u % (self.span + 1));
        let size = FAMILY_SIZE[if family == 4 { 0 } else { family as usize }];
        let mut section = Vec::with_capacity(65536);
        let mut buf = Vec::with_capacity(65536 + 16);
        for layout in 0..NEAR_MAX_LAYOUTS {
            near_max_section(total - size, layout, &mut section);
            if embed(family, &section, &mut buf) {
                f(&buf);
            }
        }
    }
}

/// The same shapes as bare sections, every size in lo..=hi (for the iterator alone and for C11's own embedding).
pub struct NearMaxSections {
    pub lo: usize,
    pub hi: usize,
}

impl Universe for NearMaxSections {
    fn name(&self) -> String {
        "UT-structured/near-max-sections".into()
    }
    fn bound(&self) -> Value {
        json!({"mode": "well-formed TLV sections of every size lo..=hi in the 6 near-max shapes", "lo": self.lo, "hi": self.hi})
    }
    fn units(&self) -> usize {
        self.hi - self.lo + 1
    }
    fn roots(&self) -> u64 {
        1
    }
    fn run_unit(&self, u: usize, f: &mut dyn FnMut(&[u8])) {
        let mut section = Vec::with_capacity(65536);
        for layout in 0..NEAR_MAX_LAYOUTS {
            near_max_section(self.lo + u, layout, &mut section);
            f(&section);
        }
    }
}

fn describe(items: &[Item]) -> String {
    let mut s = String::new();
    for i in items.iter().take(8) {
        s.push_str(&format!("{:?} ", i));
    }
    if items.len() > 8 {
        s.push_str(&format!("… ({} items)", items.len()));
    }
    s
}

/// Does what an iterator call returned equal the reference item (None = iteration is over)?
fn item_matches(g: &Option<Result<v2::TypeLengthValue, v2::ParseError>>, e: Option<&Item>, section: &[u8]) -> bool {
    match (g, e) {
        (None, None) => true,
        (Some(Ok(t)), Some(Item::Tlv { kind, off, len })) => t.kind == *kind && t.value.as_ref() == &section[*off..off + len],
        (Some(Err(v2::ParseError::InvalidTLV(k, d))), Some(Item::Overrun { kind, declared })) => k == kind && d == declared,
        (Some(Err(_)), Some(Item::Short { .. })) => true,
        _ => false,
    }
}

/// Drive the real iterator and compare with the reference walk.
pub fn check_iteration(acc: &mut Acc, entry: &str, section: &[u8], mut it: v2::TypeLengthValues) {
    let expected = otlv::walk(section);
    let cap = section.len() / 3 + 1;
    let mut got: Vec<Result<(u8, Vec<u8>), v2::ParseError>> = Vec::new();
    let mut ended = false;
    let mut steps = 0usize;
    let small = expected.len() <= 48;
    // First a bounded walk with next() alone on a copy: an iterator that never ends is reported here, before any
    // unbounded provided method (count, last) is called on it and hangs the check instead.
    {
        let mut probe = it;
        let mut n = 0usize;
        while probe.next().is_some() {
            n += 1;
            if n > cap + 1 {
                acc.violation("does-not-end", entry, format!("None after {} items ({} bytes)", expected.len(), section.len()), format!("still yielding after {} items", n));
                return;
            }
        }
        acc.eval(n as u64 + 1);
    }
    if !small {
        // long sections: the positional forms from the start only, at the first, middle and last items and one past
        let n = expected.len();
        for k in [0usize, 1, 2, 7, 8, 9, n / 2, n.saturating_sub(2), n.saturating_sub(1), n] {
            let a = {
                let mut c = it;
                c.nth(k)
            };
            let b = it.skip(k).next();
            acc.eval(2);
            if !item_matches(&a, expected.get(k), section) || !item_matches(&b, expected.get(k), section) {
                acc.violation("adaptor-disagrees-with-next", entry, format!("item {} of {} through nth / skip", k, n), "a different item or None".into());
                return;
            }
        }
        let c = it.count();
        if c != n {
            acc.violation("adaptor-disagrees-with-next", entry, format!("count() = {}", n), format!("{}", c));
            return;
        }
    }
    while steps <= cap + 1 {
        if small {
            // the provided Iterator methods on a copy of the cursor must continue from the cursor, not restart
            let remaining = expected.len().saturating_sub(got.len());
            let by_count = it.take(cap + 2).count();
            let by_fold = it.take(cap + 2).fold(0usize, |n, _| n + 1);
            let mut by_for_each = 0usize;
            it.take(cap + 2).for_each(|_| by_for_each += 1);
            let direct = it.count().min(cap + 2);
            acc.eval(4);
            if by_count != remaining || by_fold != remaining || by_for_each != remaining || direct != remaining {
                acc.violation(
                    "adaptor-disagrees-with-next",
                    entry,
                    format!("{} items remain after {} calls to next()", remaining, got.len()),
                    format!("take(n).count()={} fold={} for_each={} count()={}", by_count, by_fold, by_for_each, direct),
                );
                return;
            }
        }
        if small {
            // positional and searching forms (nth, skip, step_by, last, find, position, any, all) on copies of the
            // cursor: each must agree with repeated next() from this cursor, also when called again on the same copy
            let rest = &expected[got.len().min(expected.len())..];
            let mut bad: Option<String> = None;
            for k in 0..=3usize {
                let a = { let mut c = it; c.nth(k) };
                let b = it.skip(k).next();
                if !item_matches(&a, rest.get(k), section) || !item_matches(&b, rest.get(k), section) {
                    bad = Some(format!("nth({})/skip({}).next() != item {} from the cursor", k, k, k));
                }
                let mut c = it;
                let _ = c.nth(k);
                let second = c.nth(1);
                let after = c.next();
                if !item_matches(&second, rest.get(k + 2), section) || !item_matches(&after, rest.get(k + 3), section) {
                    bad = Some(format!("nth({}) then nth(1) then next() on one cursor", k));
                }
            }
            for st in 2..=3usize {
                let n = it.step_by(st).take(cap + 2).count();
                if n != (rest.len() + st - 1) / st {
                    bad = Some(format!("step_by({}).count()={} with {} items remaining", st, n, rest.len()));
                }
            }
            if !item_matches(&it.last(), rest.last(), section) {
                bad = Some("last() is not the last item from the cursor".into());
            }
            let mut seen = 0usize;
            let found = it.take(cap + 2).find(|_| {
                seen += 1;
                false
            });
            let pos = it.take(cap + 2).position(|_| false);
            let any = it.take(cap + 2).any(|_| false);
            let all = it.take(cap + 2).all(|_| true);
            // (take() consumes a copy of the cursor; nth / find / position / any / all take &mut self, hence the copies above)
            acc.eval(16);
            if found.is_some() || seen != rest.len() || pos.is_some() || any || !all {
                bad = Some(format!("find/position/any/all visited {} items with {} remaining", seen, rest.len()));
            }
            if let Some(b) = bad {
                acc.violation("adaptor-disagrees-with-next", entry, format!("agreement with next() after {} calls", got.len()), b);
                return;
            }
        }
        steps += 1;
        acc.eval(1);
        match it.next() {
            None => {
                ended = true;
                break;
            }
            Some(Ok(t)) => got.push(Ok((t.kind, t.value.to_vec()))),
            Some(Err(e)) => got.push(Err(e)),
        }
    }
    acc.validated(1);
    if got.len() > cap {
        acc.violation("too-many-items", entry, format!("at most {} items for {} bytes", cap, section.len()), format!("{} items and counting", got.len()));
        return;
    }
    if !ended {
        acc.violation("does-not-end", entry, format!("None after {} items", expected.len()), "iterator still yielding".into());
        return;
    }
    // nothing after the end
    for _ in 0..3 {
        acc.eval(1);
        if let Some(x) = it.next() {
            acc.violation("item-after-end", entry, "None forever after the first None".into(), format!("{:?}", x.map(|t| (t.kind, t.value.len()))));
            return;
        }
    }
    // item by item
    let mut mismatch = got.len() != expected.len();
    if !mismatch {
        for (g, e) in got.iter().zip(expected.iter()) {
            let ok = match (g, e) {
                (Ok((k, v)), Item::Tlv { kind, off, len }) => k == kind && v.as_slice() == &section[*off..off + len],
                (Err(v2::ParseError::InvalidTLV(k, d)), Item::Overrun { kind, declared }) => k == kind && d == declared,
                (Err(_), Item::Short { .. }) => true,
                _ => false,
            };
            if !ok {
                mismatch = true;
                break;
            }
        }
    }
    if mismatch {
        let kind = if got.len() != expected.len() { "item-count-differs" } else { "item-differs" };
        let shown: Vec<String> = got
            .iter()
            .take(8)
            .map(|g| match g {
                Ok((k, v)) => format!("Tlv{{kind:{}, len:{}, value:{}}}", k, v.len(), hex(&v[..v.len().min(8)])),
                Err(e) => format!("Err({:?})", e),
            })
            .collect();
        acc.violation(kind, entry, describe(&expected), format!("{} items: {}", got.len(), shown.join(" ")));
    }
}

pub fn judge(input: &[u8], acc: &mut Acc) {
    let expected = otlv::walk(input);
    let oc = match expected.last() {
        None => "empty",
        Some(Item::Tlv { .. }) => "well-formed",
        Some(Item::Short { .. }) => "short-tail",
        Some(Item::Overrun { .. }) => "overrun",
    };
    let nitems = match expected.len() {
        0 => "0 items",
        1 => "1 item",
        2 => "2 items",
        3 => "3 items",
        _ => "4+ items",
    };
    acc.class(oc, nitems);
    if expected.iter().any(|i| matches!(i, Item::Tlv { .. } | Item::Overrun { .. })) {
        acc.nontrivial();
    }
    if let Err(p) = guard(|| check_iteration(acc, "TypeLengthValues::from(&[u8])", input, v2::TypeLengthValues::from(input))) {
        acc.violation("iteration-panicked", "TypeLengthValues::from(&[u8])", "normal return".into(), p);
    }
    // embedded in a header of each family with an address block (the unspecified family has no TLV view)
    let mut buf = Vec::new();
    for family in 1..=3u8 {
        if !embed(family, input, &mut buf) {
            continue;
        }
        let r = v2_parse(&buf);
        acc.eval(1);
        match &r {
            Ok(Ok(h)) => {
                let entry = match family {
                    1 => "Header::tlvs() [IPv4 header]",
                    2 => "Header::tlvs() [IPv6 header]",
                    _ => "Header::tlvs() [Unix header]",
                };
                let res = guard(|| {
                    if h.tlv_bytes() != input {
                        acc.violation("section-view-differs", entry, format!("{} section bytes", input.len()), format!("{} bytes: {}", h.tlv_bytes().len(), escape(h.tlv_bytes())));
                    } else {
                        check_iteration(acc, entry, input, h.tlvs());
                    }
                });
                if let Err(p) = res {
                    acc.violation("iteration-panicked", entry, "normal return".into(), p);
                }
            }
            other => acc.violation("embedding-header-not-accepted", "v2::Header::try_from", "Ok".into(), format!("{:?}", other.as_ref().map(|x| x.as_ref().map(|h| h.len())))),
        }
    }
}

pub fn run(run: &Run) {
    run.explore(&u2::tlv_byte_universe(run.tier.pick(10, 12)));
    run.explore(&u2::tlv_text_universe(run.tier.pick(8, 10)));
    run.explore(&u2::tlv_structured_universe(run.tier == Tier::Thorough));
    run.explore(&NearMaxSections { lo: 65535 - 216 - run.tier.pick(35, 135), hi: 65535 });
}
