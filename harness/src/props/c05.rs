//! C05 — streaming: every proper prefix of an accepted header is reported incomplete.

use super::common::*;
use crate::engine::*;
use crate::universe::v2 as u2;
use ppp::{v1, v2, HeaderResult, PartialResult};

pub fn def() -> PropDef {
    PropDef {
        id: "C05",
        title: "Streaming: every proper prefix of an accepted header is reported incomplete",
        judge,
        run,
        shrink: Shrink::Bytes,
        render: render_bytes,
        rule: "H = every input the real parsers accept in the v1 universes (US-ASCII lines), U2-ctl, U2-len, U2-addr, U2-sig and embedded TLV sections; for each, every proper prefix of the reported header (v2 headers over 700 bytes: every cut up to 16+size+8, the last 8, and a stride of 97 in between) is parsed through the version's entry points and HeaderResult::parse and must be flagged incomplete; a receiver that re-parses a growing Vec after each read is simulated literally for every split into <= 3 reads (headers <= 64 bytes) and for all 2^(n-1) splits of headers <= 16 bytes; on every result ever produced is_complete == !is_incomplete and Ok => !is_incomplete; non-trivial = accepted; distinct = hash of the input",
        assumptions: &["the receiver's only state is its buffer, so the 2^(n-1) read splits collapse to n+1 states; the literal simulations validate that collapse on short headers"],
    }
}

fn flags_ok<T, E: PartialResult>(r: &Result<T, E>) -> bool {
    let inc = r.is_incomplete();
    let com = r.is_complete();
    inc != com && !(r.is_ok() && inc)
}

fn prefix_cuts(total: usize, dense_head: usize) -> Vec<usize> {
    if total <= 700 {
        return (0..total).collect();
    }
    let mut v: Vec<usize> = (0..dense_head.min(total)).collect();
    let mut n = dense_head;
    while n + 8 < total {
        v.push(n);
        n += 97;
    }
    v.extend(total.saturating_sub(8).max(dense_head)..total);
    v.sort();
    v.dedup();
    v
}

fn check_v1(acc: &mut Acc, input: &[u8], h: &v1::Header) {
    let hdr = h.header.as_bytes();
    if !hdr.is_ascii() {
        acc.note("accepted v1 header with non-ASCII text: outside the property's quantifier, skipped", 1);
        return;
    }
    if !input.starts_with(hdr) {
        return; // C01 / C04 report this
    }
    for n in 0..hdr.len() {
        let p = &hdr[..n];
        let rb = v1_bytes(p);
        acc.eval(3);
        acc.validated(1);
        if let Ok(x) = &rb {
            if !flags_ok(x) {
                acc.violation_on("completeness-flags-inconsistent", "v1::Header::try_from(&[u8])", p.to_vec(), "is_complete == !is_incomplete, Ok => complete".into(), format!("{:?}", x));
            }
            if !x.is_incomplete() {
                let kind = if x.is_ok() { "prefix-accepted" } else { "prefix-terminal-error" };
                acc.violation_on(&format!("{}:{}", kind, v1b_name(&rb)), "v1::Header::try_from(&[u8])", p.to_vec(), format!("incomplete (prefix {} of {} bytes of an accepted header)", n, hdr.len()), format!("{:?}", x));
            }
        }
        let s = std::str::from_utf8(p).unwrap();
        let rs = v1_str(s);
        if let Ok(x) = &rs {
            if !x.is_incomplete() || !flags_ok(x) {
                let kind = if x.is_ok() { "prefix-accepted" } else { "prefix-terminal-error" };
                acc.violation_on(&format!("{}:{}", kind, v1s_name(&rs)), "v1::Header::try_from(&str)", p.to_vec(), "incomplete".into(), format!("{:?}", x));
            }
        }
        let ra = guard(|| HeaderResult::parse(p));
        if let Ok(x) = &ra {
            if !x.is_incomplete() || x.is_complete() {
                acc.violation_on("prefix-not-incomplete:auto", "HeaderResult::parse", p.to_vec(), "incomplete".into(), format!("{:?}", x));
            }
        }
    }
    if hdr.len() <= 64 {
        receiver_splits(acc, hdr, hdr.len() <= 16);
    }
}

fn check_v2(acc: &mut Acc, input: &[u8], h: &v2::Header) {
    let hdr = h.as_bytes();
    if !input.starts_with(hdr) {
        return;
    }
    let size = h.address_bytes().len().min(216);
    for n in prefix_cuts(hdr.len(), 16 + size + 8) {
        let p = &hdr[..n];
        let r = v2_parse(p);
        acc.eval(2);
        acc.validated(1);
        if let Ok(x) = &r {
            if !x.is_incomplete() || !flags_ok(x) {
                let kind = if x.is_ok() { "prefix-accepted" } else { "prefix-terminal-error" };
                acc.violation_on(&format!("{}:{}", kind, v2_name(&r)), "v2::Header::try_from(&[u8])", p[..p.len().min(2048)].to_vec(), format!("incomplete (prefix {} of {} bytes)", n, hdr.len()), format!("{:?}", x.as_ref().map(|h| h.len())));
            }
        }
        let ra = guard(|| HeaderResult::parse(p));
        if let Ok(x) = &ra {
            if !x.is_incomplete() || x.is_complete() {
                acc.violation_on("prefix-not-incomplete:auto", "HeaderResult::parse", p[..p.len().min(2048)].to_vec(), "incomplete".into(), format!("{:?}", x.is_incomplete()));
            }
        }
    }
    if hdr.len() <= 64 {
        receiver_splits(acc, hdr, hdr.len() <= 16);
    }
}

/// The loop of examples/server.rs: append what the read returned, re-parse, stop when complete.
/// Returns the number of bytes buffered when it stopped and whether the result was a success.
fn receive(reads: &[&[u8]], last_extra: &[u8]) -> (usize, bool, u64, usize) {
    let mut buffer: Vec<u8> = Vec::new();
    let mut parses = 0;
    for (i, r) in reads.iter().enumerate() {
        buffer.extend_from_slice(r);
        if i + 1 == reads.len() {
            buffer.extend_from_slice(last_extra); // the final read may bring application data with it
        }
        parses += 1;
        let res = HeaderResult::parse(&buffer);
        if res.is_complete() {
            let hlen = match &res {
                HeaderResult::V1(Ok(h)) => h.header.len(),
                HeaderResult::V2(Ok(h)) => h.len(),
                _ => 0,
            };
            let ok = matches!(res, HeaderResult::V1(Ok(_)) | HeaderResult::V2(Ok(_)));
            return (buffer.len(), ok, parses, hlen);
        }
    }
    (buffer.len(), false, parses, 0)
}

fn receiver_splits(acc: &mut Acc, hdr: &[u8], all_compositions: bool) {
    // one simulation per distinct header (the same header is reached from many inputs with different trailers)
    static SEEN: std::sync::Mutex<Option<std::collections::HashSet<u64>>> = std::sync::Mutex::new(None);
    {
        let mut g = SEEN.lock().unwrap();
        if !g.get_or_insert_with(Default::default).insert(hash64(hdr)) && acc.collect {
            return;
        }
    }
    let n = hdr.len();
    let mut transitions = 0u64;
    let mut check = |acc: &mut Acc, cuts: &[usize]| {
        let mut reads: Vec<&[u8]> = Vec::with_capacity(cuts.len() + 1);
        let mut last = 0;
        for &c in cuts {
            reads.push(&hdr[last..c]);
            last = c;
        }
        reads.push(&hdr[last..]);
        // application data arriving with the last read: text, line breaks, and data that is not text at all (a TLS
        // record, a lone continuation byte, a character cut by the read, the v2 signature)
        for extra in [&b""[..], &b"\r\nGET"[..], &b"GET / HTTP/1.1\r\n"[..], &b"\r\n"[..], &[0x80u8][..], &[0x16u8, 3, 1, 2, 0, 1, 0xfc][..], &[0xe2u8, 0x82][..], &b"\r\n\r\n\0\r\nQUIT\n"[..]] {
            if let Ok((stopped, ok, parses, hlen)) = guard(|| receive(&reads, extra)) {
                transitions += parses;
                acc.eval(parses);
                if stopped != n + extra.len() || !ok || hlen != n {
                    acc.violation_on(
                        "receiver-stops-early-or-fails",
                        "receiver loop over HeaderResult::parse",
                        hdr[..stopped.min(n)].to_vec(),
                        format!("stops after the read that completes the {} header bytes, with the one-shot header (reads cut at {:?}, {} bytes of payload in the last read)", n, cuts, extra.len()),
                        format!("stopped with {} bytes buffered, success={}, header length {}", stopped, ok, hlen),
                    );
                }
            }
        }
    };
    // every split into <= 3 reads
    check(acc, &[]);
    for a in 1..n {
        check(acc, &[a]);
        for b in a + 1..n {
            check(acc, &[a, b]);
        }
    }
    if all_compositions && n >= 2 {
        for mask in 0u32..(1u32 << (n - 1)) {
            let cuts: Vec<usize> = (1..n).filter(|i| mask & (1 << (i - 1)) != 0).collect();
            if cuts.len() > 2 {
                check(acc, &cuts);
            }
        }
    }
    acc.note("receiver simulations: parse calls (transitions of the read-split model)", transitions);
}

pub fn judge(input: &[u8], acc: &mut Acc) {
    // global monitor on the results for this very input
    let rb = v1_bytes(input);
    let r2 = v2_parse(input);
    acc.eval(2);
    if let Ok(x) = &rb {
        if !flags_ok(x) {
            acc.violation("completeness-flags-inconsistent", "v1::Header::try_from(&[u8])", "is_complete == !is_incomplete, Ok => complete".into(), format!("{:?}", x));
        }
    }
    if let Ok(x) = &r2 {
        if !flags_ok(x) {
            acc.violation("completeness-flags-inconsistent", "v2::Header::try_from(&[u8])", "is_complete == !is_incomplete, Ok => complete".into(), format!("{:?}", x.as_ref().map(|h| h.len())));
        }
    }
    if let Ok(a) = guard(|| HeaderResult::parse(input)) {
        let ok = matches!(a, HeaderResult::V1(Ok(_)) | HeaderResult::V2(Ok(_)));
        if a.is_complete() == a.is_incomplete() || (ok && a.is_incomplete()) {
            acc.violation("completeness-flags-inconsistent", "HeaderResult::parse", "is_complete == !is_incomplete, Ok => complete".into(), format!("{:?}", a));
        }
    }
    let mut accepted = false;
    if let Ok(Ok(h)) = &rb {
        accepted = true;
        acc.class("accepted", v1_ok_name(h));
        check_v1(acc, input, h);
    }
    if let Ok(Ok(h)) = &r2 {
        accepted = true;
        acc.class("accepted", v2_name(&r2));
        check_v2(acc, input, h);
    }
    if accepted {
        acc.nontrivial();
    } else {
        acc.class("not-accepted", "-");
    }
}

pub fn run(run: &Run) {
    let b = v1_bounds_derived(run.tier);
    explore_all(run, &v1_universes(&b));
    run.explore(&u2::CtlUniverse);
    run.explore(&u2::LenUniverse { presents: u2::Presents::AcceptedStride(run.tier.pick(127, 13)), name: "U2-len/accepted-stride" });
    run.explore(&u2::sig_universe());
    run.explore(&u2::addr_universe());
    run.explore(&u2::anybyte_universe());
    run.explore(&u2::byte_universe(run.tier.pick(3, 4)));
    run.explore(&super::c11::EmbeddedTlv { n: run.tier.pick(5, 7) });
    run.explore(&super::c11::EmbeddedText { n: run.tier.pick(5, 7) });
}
