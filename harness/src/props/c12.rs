//! C12 — a single malformed element is rejected terminally and blamed on the right field.
//!
//! Case encoding: one element code byte followed by the input bytes.

use super::common::*;
use crate::engine::*;
use crate::oracle::v2::{FAMILY_SIZE, SIG};
use crate::oracle::{ip, utf8};
use crate::universe::{v1 as u1, v2 as u2, ListUniverse};
use ppp::{v1, v2, HeaderResult, PartialResult};
use serde_json::{json, Value};

pub fn def() -> PropDef {
    PropDef {
        id: "C12",
        title: "A single malformed element is rejected terminally and blamed on the right field",
        judge,
        run,
        shrink: Shrink::None,
        render,
        rule: "complete well-formed headers (v1: TCP4 / TCP6 / UNKNOWN with every combination of valid alternative addresses, ports and trailers; v2: all valid nibble combinations, three address families) with exactly one element replaced by every invalid value of its menu: keyword, protocol, src, dst, sport, dport, byte after CR, line length 108..=112, invalid UTF-8; each signature byte x 255 values, each invalid nibble value x all valid values of the other nibbles, each too-small length; through the dedicated entry points (kind and, for v2, payload checked) and HeaderResult::parse (terminal error required; kind too when the same version's parser answers); non-trivial = every case (each carries exactly one corrupted element); distinct = hash of the case",
        assumptions: &["invalid replacement tokens never contain SP or CR (those change the field structure, i.e. more than one element)", "inner std error payloads of v1 variants are ignored"],
    }
}

const E_KEYWORD: u8 = 1;
const E_PROTOCOL: u8 = 2;
const E_SRC: u8 = 3;
const E_DST: u8 = 4;
const E_SPORT: u8 = 5;
const E_DPORT: u8 = 6;
const E_AFTER_CR: u8 = 7;
const E_TOO_LONG: u8 = 8;
const E_UTF8: u8 = 9;
const E_SIG: u8 = 20;
const E_VERSION: u8 = 21;
const E_COMMAND: u8 = 22;
const E_FAMILY: u8 = 23;
const E_TRANSPORT: u8 = 24;
const E_LENGTH: u8 = 25;

fn element_name(c: u8) -> &'static str {
    match c {
        E_KEYWORD => "keyword",
        E_PROTOCOL => "protocol",
        E_SRC => "source address",
        E_DST => "destination address",
        E_SPORT => "source port",
        E_DPORT => "destination port",
        E_AFTER_CR => "byte after CR",
        E_TOO_LONG => "107-byte limit",
        E_UTF8 => "invalid UTF-8",
        E_SIG => "v2 signature",
        E_VERSION => "v2 version nibble",
        E_COMMAND => "v2 command nibble",
        E_FAMILY => "v2 family nibble",
        E_TRANSPORT => "v2 transport nibble",
        E_LENGTH => "v2 length too small",
        _ => "?",
    }
}

fn expected_v1(c: u8) -> &'static str {
    match c {
        E_KEYWORD => "InvalidPrefix",
        E_PROTOCOL => "InvalidProtocol",
        E_SRC => "InvalidSourceAddress",
        E_DST => "InvalidDestinationAddress",
        E_SPORT => "InvalidSourcePort",
        E_DPORT => "InvalidDestinationPort",
        E_AFTER_CR => "InvalidSuffix",
        E_TOO_LONG => "HeaderTooLong",
        E_UTF8 => "InvalidUtf8",
        _ => "?",
    }
}

fn render(case: &[u8]) -> Value {
    if case.is_empty() {
        return json!({"text": ""});
    }
    json!({"corrupted_element": element_name(case[0]), "input": escape(&case[1..]), "len": case.len() - 1})
}

pub fn judge(case: &[u8], acc: &mut Acc) {
    if case.is_empty() {
        return;
    }
    let code = case[0];
    let input = &case[1..];
    acc.nontrivial();
    if code < 20 {
        judge_v1(code, input, acc);
    } else {
        judge_v2(code, input, acc);
    }
}

fn judge_v1(code: u8, input: &[u8], acc: &mut Acc) {
    // a replacement token that pushes the line past 107 bytes corrupts two elements (the field and the limit)
    let line_len = input.iter().position(|&b| b == b'\r').map(|c| c + 2).unwrap_or(input.len());
    if code != E_TOO_LONG && line_len > 107 {
        acc.class("two elements corrupted (field and 107-byte limit)", "skipped");
        return;
    }
    let want = expected_v1(code);
    let r = v1_bytes(input);
    acc.eval(1);
    acc.validated(1);
    acc.class(element_name(code), v1b_name(&r));
    // a non-ASCII byte after the CR cuts the byte parser's window inside a character: InvalidUtf8 names it too
    let cr = input.iter().position(|&b| b == b'\r');
    let alt = match (code, cr) {
        (E_AFTER_CR, Some(c)) if input.get(c + 1).map_or(false, |b| *b >= 0x80) => "InvalidUtf8",
        _ => want,
    };
    let blame = |acc: &mut Acc, entry: &str, got: &'static str, complete: bool| {
        if complete && got == alt && !entry.contains("&str") {
            return;
        }
        if !complete {
            acc.violation(&format!("not-terminal:{}:{}", element_name(code), got), entry, format!("terminal error {}", want), format!("{} (incomplete)", got));
        } else if got != want {
            acc.violation(&format!("wrong-blame:{}:{}", element_name(code), got), entry, format!("Err({})", want), got.to_string());
        }
    };
    match &r {
        Ok(x) => blame(acc, "v1::Header::try_from(&[u8])", v1b_name(&r), x.is_complete() && x.is_err()),
        Err(_) => {} // C03
    }
    if code != E_UTF8 {
        if let Ok(s) = std::str::from_utf8(input) {
            let r = v1_str(s);
            acc.eval(1);
            acc.validated(1);
            if let Ok(x) = &r {
                blame(acc, "v1::Header::try_from(&str)", v1s_name(&r), x.is_complete() && x.is_err());
            }
        }
    }
    let a = guard(|| HeaderResult::parse(input));
    acc.eval(1);
    acc.validated(1);
    match &a {
        Ok(HeaderResult::V1(x)) => {
            let name = match x {
                Ok(h) => v1_ok_name(h),
                Err(e) => v1b_err_name(e),
            };
            blame(acc, "HeaderResult::parse", name, x.is_complete() && x.is_err());
        }
        Ok(HeaderResult::V2(x)) => {
            if !(x.is_complete() && x.is_err()) {
                acc.violation(&format!("not-terminal:{}:auto-v2", element_name(code)), "HeaderResult::parse", "terminal error".into(), format!("{:?}", x.as_ref().map(|h| h.len())));
            }
        }
        Err(_) => {}
    }
}

fn judge_v2(code: u8, input: &[u8], acc: &mut Acc) {
    if input.len() < 16 {
        return;
    }
    let want: v2::ParseError = match code {
        E_SIG => v2::ParseError::Prefix,
        E_VERSION => v2::ParseError::Version(input[12] & 0xf0),
        E_COMMAND => v2::ParseError::Command(input[12] & 0x0f),
        E_FAMILY => v2::ParseError::AddressFamily(input[13] & 0xf0),
        E_TRANSPORT => v2::ParseError::Protocol(input[13] & 0x0f),
        _ => v2::ParseError::InvalidAddresses(((input[14] as usize) << 8) | input[15] as usize, FAMILY_SIZE[((input[13] >> 4) & 3) as usize]),
    };
    let r = v2_parse(input);
    acc.eval(1);
    acc.validated(1);
    acc.class(element_name(code), v2_name(&r));
    if let Ok(x) = &r {
        match x {
            Err(e) if *e == want && x.is_complete() => {}
            Err(e) if x.is_incomplete() => acc.violation(&format!("not-terminal:{}:{}", element_name(code), v2_err_name(e)), "v2::Header::try_from(&[u8])", format!("Err({:?})", want), format!("{:?} (incomplete)", e)),
            Err(e) => acc.violation(&format!("wrong-blame:{}:{}", element_name(code), v2_err_name(e)), "v2::Header::try_from(&[u8])", format!("Err({:?})", want), format!("Err({:?})", e)),
            Ok(h) => acc.violation(&format!("accepted:{}", element_name(code)), "v2::Header::try_from(&[u8])", format!("Err({:?})", want), format!("Ok({} bytes)", h.len())),
        }
    }
    let a = guard(|| HeaderResult::parse(input));
    acc.eval(1);
    acc.validated(1);
    if let Ok(a) = &a {
        let terminal_err = a.is_complete() && !a.is_incomplete() && matches!(a, HeaderResult::V1(Err(_)) | HeaderResult::V2(Err(_)));
        if !terminal_err {
            acc.violation(&format!("not-terminal:{}:auto", element_name(code)), "HeaderResult::parse", "a terminal error".into(), format!("{:?}", a));
        } else if let HeaderResult::V2(Err(e)) = a {
            if *e != want {
                acc.violation(&format!("wrong-blame:{}:auto", element_name(code)), "HeaderResult::parse", format!("{:?}", want), format!("{:?}", e));
            }
        }
    }
}

fn s(x: &str) -> Vec<u8> {
    x.as_bytes().to_vec()
}

/// Build all v1 cases.
pub fn v1_cases(thorough: bool) -> Vec<Vec<u8>> {
    let mut cases: Vec<Vec<u8>> = Vec::new();
    let addr = u1::address_tokens();
    let ports = u1::port_tokens();
    let clean = |t: &Vec<u8>| !t.contains(&b' ') && !t.contains(&b'\r');
    let trailers: Vec<Vec<u8>> = if thorough { vec![s(""), s("X"), s("PROXY UNKNOWN\r\n"), vec![0xff]] } else { vec![s(""), s("X")] };
    struct Fam {
        proto: &'static str,
        srcs: Vec<String>,
        dsts: Vec<String>,
        v6: bool,
    }
    // valid alternatives for the untouched fields: a few in the quick tier, every valid token of the menus in the thorough tier
    let v4_all: Vec<String> = addr.iter().filter(|t| ip::parse_ipv4(t).is_some()).map(|t| String::from_utf8(t.clone()).unwrap()).collect();
    let v6_all: Vec<String> = addr.iter().filter(|t| ip::parse_ipv6(t).is_some()).map(|t| String::from_utf8(t.clone()).unwrap()).collect();
    let pick = |all: &Vec<String>, few: &[&str]| -> Vec<String> { if thorough { all.clone() } else { few.iter().map(|x| x.to_string()).collect() } };
    let fams = [
        Fam { proto: "TCP4", srcs: pick(&v4_all, &["1.2.3.4", "0.0.0.0", "255.255.255.255"]), dsts: pick(&v4_all, &["5.6.7.8", "255.255.255.255"]), v6: false },
        Fam { proto: "TCP6", srcs: pick(&v6_all, &["1:2:3:4:5:6:7:8", "::", "::ffff:1.2.3.4", "ffff:ffff:ffff:ffff:ffff:ffff:ffff:ffff"]), dsts: pick(&v6_all, &["::1", "FFFF::", "1:2:3:4:5:6:7::"]), v6: true },
    ];
    let vports: Vec<&str> = if thorough { vec!["80", "0", "65535", "1", "9", "10", "443", "65530"] } else { vec!["80", "0", "65535"] };
    let push = |cases: &mut Vec<Vec<u8>>, code: u8, line: Vec<u8>| {
        let mut c = vec![code];
        c.extend_from_slice(&line);
        cases.push(c);
    };
    for f in &fams {
        let valid_addr = |t: &[u8]| if f.v6 { ip::parse_ipv6(t).is_some() } else { ip::parse_ipv4(t).is_some() };
        for src in &f.srcs {
            for dst in &f.dsts {
                for sp in vports.iter().copied() {
                    for dp in vports.iter().copied() {
                        for tr in &trailers {
                            let line = |kw: &[u8], proto: &[u8], a: &[u8], b: &[u8], p: &[u8], q: &[u8], term: &[u8]| -> Vec<u8> { [kw, b" ", proto, b" ", a, b" ", b, b" ", p, b" ", q, term, tr.as_slice()].concat() };
                            let (kw, pr, a, b, p, q) = (b"PROXY".as_slice(), f.proto.as_bytes(), src.as_bytes(), dst.as_bytes(), sp.as_bytes(), dp.as_bytes());
                            for t in u1::keyword_tokens().iter().filter(|t| t.as_slice() != b"PROXY" && clean(t)) {
                                push(&mut cases, E_KEYWORD, line(t, pr, a, b, p, q, b"\r\n"));
                            }
                            for t in u1::protocol_tokens().iter().filter(|t| !matches!(t.as_slice(), b"TCP4" | b"TCP6" | b"UNKNOWN") && clean(t)) {
                                push(&mut cases, E_PROTOCOL, line(kw, t, a, b, p, q, b"\r\n"));
                            }
                            for t in addr.iter().filter(|t| clean(t) && !valid_addr(t) && utf8::is_valid(t)) {
                                push(&mut cases, E_SRC, line(kw, pr, t, b, p, q, b"\r\n"));
                                push(&mut cases, E_DST, line(kw, pr, a, t, p, q, b"\r\n"));
                            }
                            for t in ports.iter().filter(|t| clean(t) && ip::parse_port(t).is_none() && utf8::is_valid(t)) {
                                push(&mut cases, E_SPORT, line(kw, pr, a, b, t, q, b"\r\n"));
                                push(&mut cases, E_DPORT, line(kw, pr, a, b, p, t, b"\r\n"));
                            }
                            for follow in [&b"X"[..], b"\0", b" ", b"\r", b"\t", b"0", "é".as_bytes(), "😀".as_bytes()] {
                                let term = [b"\r", follow].concat();
                                push(&mut cases, E_AFTER_CR, line(kw, pr, a, b, p, q, &term));
                            }
                            // invalid UTF-8 inside a field (the element that is broken is the encoding)
                            for bad in [&[0xffu8][..], &[0xc3], &[0xc0, 0xaf], &[0xed, 0xa0, 0x80]] {
                                let mut aa = a.to_vec();
                                aa.extend_from_slice(bad);
                                push(&mut cases, E_UTF8, line(kw, pr, &aa, b, p, q, b"\r\n"));
                                let mut qq = q.to_vec();
                                qq.extend_from_slice(bad);
                                push(&mut cases, E_UTF8, line(kw, pr, a, b, p, &qq, b"\r\n"));
                            }
                        }
                    }
                }
            }
        }
    }
    // UNKNOWN lines
    for text in ["", " ", " a b", " 1.2.3.4 5.6.7.8 80 443", " a b c d e f"] {
        for tr in &trailers {
            let body = [b"PROXY UNKNOWN".as_slice(), text.as_bytes()].concat();
            for t in u1::keyword_tokens().iter().filter(|t| t.as_slice() != b"PROXY" && clean(t)) {
                push(&mut cases, E_KEYWORD, [t.as_slice(), &body[5..], b"\r\n", tr].concat());
            }
            for t in u1::protocol_tokens().iter().filter(|t| !matches!(t.as_slice(), b"TCP4" | b"TCP6" | b"UNKNOWN") && clean(t)) {
                push(&mut cases, E_PROTOCOL, [b"PROXY ".as_slice(), t, text.as_bytes(), b"\r\n", tr].concat());
            }
            for follow in [&b"X"[..], b"\0", b" ", b"\r", b"\t", "é".as_bytes(), "€".as_bytes()] {
                push(&mut cases, E_AFTER_CR, [body.as_slice(), b"\r", follow, tr].concat());
            }
            for bad in [&[0xffu8][..], &[0xc3], &[0xc0, 0xaf], &[0xf8, 0x80]] {
                push(&mut cases, E_UTF8, [body.as_slice(), b" ", bad, b"\r\n", tr].concat());
            }
        }
    }
    // the byte after the CR corrupted on UNKNOWN lines whose text ends in every ASCII byte value, at every alignment of
    // the CR within an 8-byte word (a scanner that works a word at a time misplaces the CR after particular bytes)
    for b in (1u8..=127).filter(|b| *b != b'\r') {
        for pad in 0..8usize {
            let mut body = s("PROXY UNKNOWN ");
            body.extend(std::iter::repeat(b'p').take(pad));
            body.push(b);
            for follow in [&b"X"[..], b"\r", b"\0"] {
                for tr in [&b""[..], b"XXXXXXXXX"] {
                    push(&mut cases, E_AFTER_CR, [body.as_slice(), b"\r", follow, tr].concat());
                }
            }
        }
    }
    // over-long lines: everything valid except the length (108..=112 bytes including CRLF; 200)
    for total in [108usize, 109, 110, 111, 112, 200] {
        for pad in [b'p', b' ', b'1'] {
            let mut l = s("PROXY UNKNOWN ");
            l.resize(total - 2, pad);
            l.extend_from_slice(b"\r\n");
            push(&mut cases, E_TOO_LONG, l.clone());
            l.extend_from_slice(b"X");
            push(&mut cases, E_TOO_LONG, l);
        }
        // over-long in bytes but not in characters: multi-byte text
        for scalar in ["\u{e9}", "\u{20ac}", "\u{1f600}"] {
            let mut l = s("PROXY UNKNOWN ");
            while l.len() + scalar.len() + 2 <= total {
                l.extend_from_slice(scalar.as_bytes());
            }
            l.resize(total - 2, b'x');
            l.extend_from_slice(b"\r\n");
            push(&mut cases, E_TOO_LONG, l.clone());
            l.extend_from_slice(b"GET /");
            push(&mut cases, E_TOO_LONG, l);
        }
    }
    cases
}

pub fn v2_cases() -> Vec<Vec<u8>> {
    let mut cases: Vec<Vec<u8>> = Vec::new();
    let build = |vc: u8, afp: u8, len: usize, present: usize| -> Vec<u8> {
        let mut h = SIG.to_vec();
        h.push(vc);
        h.push(afp);
        h.push((len >> 8) as u8);
        h.push(len as u8);
        h.extend((0..present).map(u2::pattern));
        h
    };
    let push = |cases: &mut Vec<Vec<u8>>, code: u8, h: Vec<u8>| {
        let mut c = vec![code];
        c.extend_from_slice(&h);
        cases.push(c);
    };
    for cmd in 0..2u8 {
        for fam in 0..4u8 {
            for tr in 0..3u8 {
                let size = FAMILY_SIZE[fam as usize];
                for extra in [0usize, 5] {
                    let len = size + extra;
                    let good = build(0x20 | cmd, (fam << 4) | tr, len, len);
                    // signature
                    if tr == 1 {
                        for i in 0..12 {
                            for v in 0..=255u8 {
                                if v != SIG[i] {
                                    let mut h = good.clone();
                                    h[i] = v;
                                    push(&mut cases, E_SIG, h);
                                }
                            }
                        }
                    }
                    for ver in (0..16u8).filter(|v| *v != 2) {
                        let mut h = good.clone();
                        h[12] = (ver << 4) | cmd;
                        push(&mut cases, E_VERSION, h);
                    }
                    for c in 2..16u8 {
                        let mut h = good.clone();
                        h[12] = 0x20 | c;
                        push(&mut cases, E_COMMAND, h);
                    }
                    for f in 4..16u8 {
                        let mut h = good.clone();
                        h[13] = (f << 4) | tr;
                        push(&mut cases, E_FAMILY, h);
                    }
                    for p in 3..16u8 {
                        let mut h = good.clone();
                        h[13] = (fam << 4) | p;
                        push(&mut cases, E_TRANSPORT, h);
                    }
                    if extra == 0 {
                        for small in 0..size {
                            // bytes present: the original full payload, or only the declared (too small) amount
                            // the address block is still there; only the declared length is too small
                            push(&mut cases, E_LENGTH, build(0x20 | cmd, (fam << 4) | tr, small, size));
                        }
                    }
                }
            }
        }
    }
    cases
}

pub fn run(run: &Run) {
    let thorough = true; // the full alternative menus take a few seconds: both tiers explore them
    let _ = run.tier;
    run.explore(&ListUniverse { name: "U12-v1".into(), what: "well-formed v1 lines x one invalid element".into(), cases: v1_cases(thorough) });
    run.explore(&ListUniverse { name: "U12-v2".into(), what: "well-formed v2 headers x one invalid element".into(), cases: v2_cases() });
}
