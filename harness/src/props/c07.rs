//! C07 — v2 builder emits the specified wire format and its output parses back unchanged.
//!
//! Case encoding: [command 0|1][transport 0..=2][address value (values::AV)][n][n x (mode, kind, len_hi, len_mid, len_lo)]
//! mode 0: kind is an index into the named `Type` table (written through the enum); mode 1: raw type byte.

use super::c02::addresses_match;
use super::common::*;
use super::values::{AddrValues, AV};
use crate::engine::*;
use crate::oracle::{enc, v2 as o2};
use crate::universe::ListUniverse;
use ppp::v2::{self, Builder, Command, Protocol, Type, Version};
use serde_json::{json, Value};
use std::net::{Ipv4Addr, Ipv6Addr};

pub fn def() -> PropDef {
    PropDef {
        id: "C07",
        title: "v2 builder emits the specified wire format and its output parses back unchanged",
        judge,
        run,
        shrink: Shrink::None,
        render,
        rule: "{LOCAL, PROXY} x {unspec, stream, dgram} x every address value of UA (four families) x 6 fixed TLV lists; one address per family x every raw type byte 0..=255 (value lengths 0, 1, 300) and every TLV list of length <= 2 over 15 type bytes (12 named types through the enum, raw 0x00 0xEE 0xFF) x value lengths {0,1,2,255,256,257}, length-3 lists over a reduced menu, lists of 9..=24 items with varying value lengths, and lists sized to exactly 65534 / 65535 payload bytes; each built four ways: with_addresses(..).write_tlv(..)*, new(..).write_payload(addresses).write_payload(tlv)*, with_addresses(..).write_payloads(one batch), and write_tlv calls interleaved with reserve_capacity hints; output compared with the independent encoder, with the reference v2 verdict, and with what the real parser returns (command, transport, addresses, bytes, TLV sequence when a family is specified); non-trivial = every case; distinct = hash of the case",
        assumptions: &["TLV values are position-dependent byte patterns, plus every string up to length 5/6 over {00,01,02,03,FF,own type code}; not arbitrary bytes", "registered TLV type codes are copied from the specification text (PP2_TYPE_*)"],
    }
}

pub const TYPES: [(Type, u8); 12] = [
    (Type::ALPN, enc::PP2_TYPE_ALPN),
    (Type::Authority, enc::PP2_TYPE_AUTHORITY),
    (Type::CRC32C, enc::PP2_TYPE_CRC32C),
    (Type::NoOp, enc::PP2_TYPE_NOOP),
    (Type::UniqueId, enc::PP2_TYPE_UNIQUE_ID),
    (Type::SSL, enc::PP2_TYPE_SSL),
    (Type::SSLVersion, enc::PP2_SUBTYPE_SSL_VERSION),
    (Type::SSLCommonName, enc::PP2_SUBTYPE_SSL_CN),
    (Type::SSLCipher, enc::PP2_SUBTYPE_SSL_CIPHER),
    (Type::SSLSignatureAlgorithm, enc::PP2_SUBTYPE_SSL_SIG_ALG),
    (Type::SSLKeyAlgorithm, enc::PP2_SUBTYPE_SSL_KEY_ALG),
    (Type::NetworkNamespace, enc::PP2_TYPE_NETNS),
];

#[derive(Clone, Debug)]
pub struct TlvSpec {
    /// bit 0: raw type byte (else index into the named `Type` table); bit 1: explicit value bytes follow the length
    pub mode: u8,
    pub kind: u8,
    pub len: usize,
    pub explicit: Option<Vec<u8>>,
}

impl TlvSpec {
    pub fn named(kind: u8, len: usize) -> TlvSpec {
        TlvSpec { mode: 0, kind, len, explicit: None }
    }
    pub fn raw(kind: u8, len: usize) -> TlvSpec {
        TlvSpec { mode: 1, kind, len, explicit: None }
    }
    pub fn with_value(raw: bool, kind: u8, value: &[u8]) -> TlvSpec {
        TlvSpec { mode: 2 | raw as u8, kind, len: value.len(), explicit: Some(value.to_vec()) }
    }
}

impl TlvSpec {
    pub fn code(&self) -> u8 {
        if self.mode & 1 == 0 {
            TYPES[self.kind as usize % 12].1
        } else {
            self.kind
        }
    }
    pub fn value(&self, index: usize) -> Vec<u8> {
        match &self.explicit {
            Some(v) => v.clone(),
            None => (0..self.len).map(|i| ((i * 5 + index * 17 + 3) % 256) as u8).collect(),
        }
    }
    pub fn encode(&self, out: &mut Vec<u8>) {
        out.extend_from_slice(&[self.mode, self.kind, (self.len >> 16) as u8, (self.len >> 8) as u8, self.len as u8]);
        if let Some(v) = &self.explicit {
            out.extend_from_slice(v);
        }
    }
}

pub struct Case {
    pub command: u8,
    pub transport: u8,
    pub addr: AV,
    pub tlvs: Vec<TlvSpec>,
}

pub fn decode(case: &[u8]) -> Option<Case> {
    if case.len() < 3 {
        return None;
    }
    let (command, transport) = (case[0], case[1]);
    if command > 1 || transport > 2 {
        return None;
    }
    let (addr, rest) = AV::decode(&case[2..])?;
    let n = *rest.first()? as usize;
    let mut tlvs = Vec::new();
    let mut r = &rest[1..];
    for _ in 0..n {
        if r.len() < 5 {
            return None;
        }
        let len = ((r[2] as usize) << 16) | ((r[3] as usize) << 8) | r[4] as usize;
        let mode = r[0];
        let kind = r[1];
        r = &r[5..];
        let explicit = if mode & 2 != 0 {
            if r.len() < len {
                return None;
            }
            let v = r[..len].to_vec();
            r = &r[len..];
            Some(v)
        } else {
            None
        };
        tlvs.push(TlvSpec { mode, kind, len, explicit });
    }
    Some(Case { command, transport, addr, tlvs })
}

pub fn encode(command: u8, transport: u8, addr: &AV, tlvs: &[TlvSpec]) -> Vec<u8> {
    let mut out = vec![command, transport];
    addr.encode(&mut out);
    out.push(tlvs.len() as u8);
    for t in tlvs {
        t.encode(&mut out);
    }
    out
}

fn render(case: &[u8]) -> Value {
    match decode(case) {
        Some(c) => json!({
            "command": if c.command == 0 { "LOCAL" } else { "PROXY" },
            "transport": c.transport,
            "addresses": c.addr.describe(),
            "tlvs": c.tlvs.iter().map(|t| format!("type {:#04x}{} len {}", t.code(), if t.mode & 1 == 0 { " (named)" } else { "" }, t.len)).collect::<Vec<_>>(),
        }),
        None => json!({"raw": hex(case)}),
    }
}

pub fn real_addresses(a: &AV) -> v2::Addresses {
    match a {
        AV::None => v2::Addresses::Unspecified,
        AV::V4 { src, dst, sport, dport } => v2::Addresses::IPv4(super::values::make_v4(*src, *dst, *sport, *dport)),
        AV::V6 { src, dst, sport, dport } => v2::Addresses::IPv6(super::values::make_v6(*src, *dst, *sport, *dport)),
        AV::Unix { src, dst } => v2::Addresses::Unix(super::values::make_unix(*src, *dst)),
    }
}

pub fn judge(case: &[u8], acc: &mut Acc) {
    let c = match decode(case) {
        Some(c) => c,
        None => return,
    };
    acc.nontrivial();
    let res = guard(|| check(&c, acc));
    if let Err(p) = res {
        acc.violation("builder-panicked", "Builder", "normal return".into(), p);
    }
}

fn check(c: &Case, acc: &mut Acc) {
    let block = c.addr.block();
    let family = c.addr.family();
    let values: Vec<Vec<u8>> = c.tlvs.iter().enumerate().map(|(i, t)| t.value(i)).collect();
    let mut payload = block.clone();
    for (t, v) in c.tlvs.iter().zip(values.iter()) {
        payload.extend_from_slice(&enc::tlv(t.code(), v).expect("menu lengths fit"));
    }
    if payload.len() > 65535 {
        acc.class("does not fit", "-");
        return; // outside the property's quantifier
    }
    let vc_spec = 0x20 | c.command;
    let afp_spec = (family << 4) | c.transport;
    let want = enc::header(vc_spec, afp_spec, payload.len() as u16, &payload);
    let command = if c.command == 0 { Command::Local } else { Command::Proxy };
    let protocol = match c.transport {
        0 => Protocol::Unspecified,
        1 => Protocol::Stream,
        _ => Protocol::Datagram,
    };
    let addresses = real_addresses(&c.addr);
    acc.class(match family { 0 => "unspecified", 1 => "ipv4", 2 => "ipv6", _ => "unix" }, match c.tlvs.len() { 0 => "0 TLVs", 1 => "1 TLV", 2 => "2 TLVs", _ => "3+ TLVs" });

    // path 1: with_addresses + write_tlv
    let mut b: std::io::Result<Builder> = Ok(Builder::with_addresses(Version::Two | command, protocol, addresses));
    for (t, v) in c.tlvs.iter().zip(values.iter()) {
        b = b.and_then(|b| if t.mode & 1 == 0 { b.write_tlv(TYPES[t.kind as usize % 12].0, v) } else { b.write_tlv(t.kind, v) });
    }
    let out1 = b.and_then(|b| b.build());
    // path 2: new + payloads
    let afp_real = match family {
        0 => v2::AddressFamily::Unspecified | protocol,
        1 => v2::AddressFamily::IPv4 | protocol,
        2 => v2::AddressFamily::IPv6 | protocol,
        _ => v2::AddressFamily::Unix | protocol,
    };
    let mut b: std::io::Result<Builder> = Builder::new(command | Version::Two, afp_real).write_payload(addresses);
    for (t, v) in c.tlvs.iter().zip(values.iter()) {
        b = b.and_then(|b| if t.mode & 1 == 0 { b.write_payload((TYPES[t.kind as usize % 12].0, v.as_slice())) } else { b.write_payload(v2::TypeLengthValue::new(t.kind, v)) });
    }
    let out2 = b.and_then(|b| b.build());
    // path 3: with_addresses + one write_payloads batch of (type byte, value) pairs
    let batch: Vec<(u8, &[u8])> = c.tlvs.iter().zip(values.iter()).map(|(t, v)| (t.code(), v.as_slice())).collect();
    let out3 = Builder::with_addresses(Version::Two | command, protocol, addresses).write_payloads(batch).and_then(|b| b.build());
    // path 4: as a caller that sizes the buffer as it goes: a capacity hint before, between and after the writes
    let mut b: std::io::Result<Builder> = Ok(Builder::with_addresses(Version::Two | command, protocol, addresses).reserve_capacity(8));
    for (t, v) in c.tlvs.iter().zip(values.iter()) {
        b = b.and_then(|b| b.write_tlv(t.code(), v)).map(|b| b.reserve_capacity(v.len() + 3));
    }
    let out4 = b.map(|b| b.reserve_capacity(0)).and_then(|b| b.build());
    acc.eval(4);
    acc.validated(4);
    for (how, out) in [("Builder::with_addresses(..).write_tlv(..)*.build()", &out1), ("Builder::new(..).write_payload(addresses).write_payload(tlv)*.build()", &out2), ("Builder::with_addresses(..).write_payloads(all TLVs as one batch).build()", &out3), ("Builder::with_addresses(..).reserve_capacity(8).(write_tlv(..).reserve_capacity(n))*.build()", &out4)] {
        match out {
            Ok(bytes) if *bytes == want => {}
            Ok(bytes) => {
                let at = bytes.iter().zip(want.iter()).position(|(a, b)| a != b).unwrap_or(bytes.len().min(want.len()));
                acc.violation(
                    "wire-encoding-differs",
                    how,
                    format!("{} bytes; from offset {}: {}", want.len(), at, hex(&want[at.min(want.len())..want.len().min(at + 16)])),
                    format!("{} bytes; from offset {}: {}", bytes.len(), at, hex(&bytes[at.min(bytes.len())..bytes.len().min(at + 16)])),
                );
            }
            Err(e) => acc.violation("fitting-header-refused", how, format!("Ok({} bytes)", want.len()), format!("Err({:?})", e.kind())),
        }
    }
    // the reference verdict on the specification bytes
    match o2::verdict(&want) {
        o2::Verdict::Accept(a) if a.command == c.command && a.transport == c.transport && a.family == family && a.length == payload.len() => {}
        other => panic!("reference encoder and reference parser disagree: {:?}", other),
    }
    // parse back what the builder produced
    if let Ok(bytes) = &out1 {
        let r = v2_parse(bytes);
        acc.eval(1);
        acc.validated(1);
        match &r {
            Ok(Ok(h)) => {
                let cmd_ok = matches!((h.command, c.command), (Command::Local, 0) | (Command::Proxy, 1));
                let tr_ok = matches!((h.protocol, c.transport), (Protocol::Unspecified, 0) | (Protocol::Stream, 1) | (Protocol::Datagram, 2));
                if !cmd_ok || !tr_ok || h.addresses != addresses || !addresses_match(&h.addresses, family, &block) || h.as_bytes() != bytes.as_slice() {
                    acc.violation("parse-back-differs", "v2::Header::try_from(built)", format!("{:?} {:?} {:?}", command, protocol, addresses), format!("{:?} {:?} {:?} ({} bytes)", h.command, h.protocol, h.addresses, h.len()));
                }
                if family != 0 {
                    let cap = h.tlv_bytes().len() / 3 + 2;
                    let got: Vec<Result<(u8, Vec<u8>), String>> = h.tlvs().take(cap).map(|t| t.map(|t| (t.kind, t.value.to_vec())).map_err(|e| format!("{:?}", e))).collect();
                    let exp: Vec<Result<(u8, Vec<u8>), String>> = c.tlvs.iter().zip(values.iter()).map(|(t, v)| Ok((t.code(), v.clone()))).collect();
                    if got != exp {
                        acc.violation(
                            "tlv-sequence-differs",
                            "Header::tlvs() on the built header",
                            format!("{:?}", exp.iter().map(|x| x.as_ref().map(|(k, v)| (*k, v.len())).map_err(|e| e.clone())).collect::<Vec<_>>()),
                            format!("{:?}", got.iter().map(|x| x.as_ref().map(|(k, v)| (*k, v.len())).map_err(|e| e.clone())).collect::<Vec<_>>()),
                        );
                    }
                }
            }
            other => acc.violation("built-header-not-accepted", "v2::Header::try_from(built)", "Ok".into(), format!("{:?}", other.as_ref().map(|x| x.as_ref().map(|h| h.len())))),
        }
    }
}

/// UA x (command, transport) x fixed TLV lists.
pub struct Decorated {
    pub inner: AddrValues,
    pub heads: Vec<[u8; 2]>,
    pub tails: Vec<Vec<u8>>,
}

impl Universe for Decorated {
    fn name(&self) -> String {
        "UA x control x fixed TLV lists".into()
    }
    fn bound(&self) -> Value {
        json!({"addresses": self.inner.bound(), "control_pairs": self.heads.len(), "tlv_lists": self.tails.len()})
    }
    fn units(&self) -> usize {
        self.inner.units()
    }
    fn roots(&self) -> u64 {
        1
    }
    fn run_unit(&self, u: usize, f: &mut dyn FnMut(&[u8])) {
        let mut buf = Vec::with_capacity(300);
        self.inner.run_unit(u, &mut |av: &[u8]| {
            for h in &self.heads {
                for t in &self.tails {
                    buf.clear();
                    buf.extend_from_slice(h);
                    buf.extend_from_slice(av);
                    buf.extend_from_slice(t);
                    f(&buf);
                }
            }
        });
    }
}

fn tail(tlvs: &[TlvSpec]) -> Vec<u8> {
    let mut out = vec![tlvs.len() as u8];
    for t in tlvs {
        t.encode(&mut out);
    }
    out
}

pub fn representative_addresses() -> Vec<AV> {
    vec![
        AV::None,
        AV::V4 { src: [127, 0, 0, 1], dst: [192, 168, 1, 1], sport: 80, dport: 443 },
        AV::V6 { src: core::array::from_fn(|i| 0x20 + i as u8), dst: core::array::from_fn(|i| 0xf0 - i as u8), sport: 0x1234, dport: 0xfffe },
        AV::Unix { src: core::array::from_fn(|i| 1 + i as u8), dst: core::array::from_fn(|i| 200 - i as u8) },
    ]
}

pub fn tlv_menu(lens: &[usize]) -> Vec<TlvSpec> {
    let mut m = Vec::new();
    for k in 0..12u8 {
        for &l in lens {
            m.push(TlvSpec { mode: 0, kind: k, len: l, explicit: None });
        }
    }
    for raw in [0x00u8, 0xee, 0xff] {
        for &l in lens {
            m.push(TlvSpec { mode: 1, kind: raw, len: l, explicit: None });
        }
    }
    m
}

pub fn list_cases(thorough: bool) -> Vec<Vec<u8>> {
    let mut cases = Vec::new();
    let lens = [0usize, 1, 2, 255, 256, 257];
    let menu = tlv_menu(&lens);
    let small: Vec<TlvSpec> = tlv_menu(if thorough { &[0, 1, 256] } else { &[0, 256] }).into_iter().filter(|t| thorough || t.kind % 3 == 0 || t.mode == 1).collect();
    for a in representative_addresses() {
        for (cmd, tr) in [(1u8, 1u8), (0, 2), (1, 0)] {
            cases.push(encode(cmd, tr, &a, &[]));
            for x in &menu {
                cases.push(encode(cmd, tr, &a, &[x.clone()]));
                if tr == 1 {
                    for y in &menu {
                        cases.push(encode(cmd, tr, &a, &[x.clone(), y.clone()]));
                    }
                }
            }
        }
        for x in &small {
            for y in &small {
                for z in &small {
                    cases.push(encode(1, 1, &a, &[x.clone(), y.clone(), z.clone()]));
                }
            }
        }
        if thorough {
            for x in &small {
                for y in &small[..small.len().min(8)] {
                    for z in &small[..small.len().min(8)] {
                        for w in &small[..small.len().min(8)] {
                            cases.push(encode(1, 2, &a, &[x.clone(), y.clone(), z.clone(), w.clone()]));
                        }
                    }
                }
            }
        }
        // one TLV of every value length 0..=1100 (carries around multiples of 256), followed by a small one
        if a.family() == 1 {
            for l in 0usize..=1100 {
                cases.push(encode(1, 1, &a, &[TlvSpec { mode: 0, kind: 4, len: l, explicit: None }, TlvSpec { mode: 0, kind: 3, len: 7, explicit: None }]));
            }
        }
        // every raw type byte, alone and after a named item
        for k in 0..=255u8 {
            for l in [0usize, 1, 300] {
                cases.push(encode(1, 1, &a, &[TlvSpec { mode: 1, kind: k, len: l, explicit: None }]));
            }
            cases.push(encode(0, 2, &a, &[TlvSpec { mode: 0, kind: k % 12, len: 2, explicit: None }, TlvSpec { mode: 1, kind: k, len: 1, explicit: None }]));
        }
        // a mid-size value followed by small ones (the buffer's allocation doubles past the limit before its contents do)
        for sizes in [&[40000usize, 10, 10][..], &[33000, 1, 1, 1], &[20000, 20000, 20000, 5], &[1000; 60]] {
            let tl: Vec<TlvSpec> = sizes.iter().enumerate().map(|(i, l)| TlvSpec { mode: 0, kind: (i % 12) as u8, len: *l, explicit: None }).collect();
            cases.push(encode(1, 1, &a, &tl));
        }
        // lists of 9..=24 items whose value lengths differ from item to item (batching, look-ahead and per-item caches
        // in either direction -- writing the list, parsing it back -- go wrong from the 9th or 17th item on)
        for n in 9..=24usize {
            for pat in 0..2usize {
                let tl: Vec<TlvSpec> = (0..n)
                    .map(|i| {
                        let l = if pat == 0 { (i * 7 + 3) % 5 } else { (i * i + 1) % 11 };
                        if i % 2 == 0 {
                            TlvSpec { mode: 0, kind: (i % 12) as u8, len: l, explicit: None }
                        } else {
                            TlvSpec { mode: 1, kind: 0xe0 + i as u8, len: l, explicit: None }
                        }
                    })
                    .collect();
                cases.push(encode(1, 1, &a, &tl));
            }
        }
        // totals of exactly 65533, 65534 and 65535 payload bytes
        let size = a.block().len();
        for total in [65533usize, 65534, 65535] {
            let room = total - size;
            cases.push(encode(1, 1, &a, &[TlvSpec { mode: 1, kind: 0xee, len: room - 3, explicit: None }]));
            cases.push(encode(1, 1, &a, &[TlvSpec { mode: 0, kind: 4, len: 300, explicit: None }, TlvSpec { mode: 0, kind: 0, len: room - 303 - 3, explicit: None }]));
            cases.push(encode(0, 2, &a, &[TlvSpec { mode: 0, kind: 3, len: 0, explicit: None }, TlvSpec { mode: 1, kind: 0, len: room - 3 - 3 - 3 - 1, explicit: None }, TlvSpec { mode: 0, kind: 11, len: 1, explicit: None }]));
        }
        // 65535-byte single value only fits the family without an address block when nothing else is written
    }
    cases
}

/// TLV values over a tiny alphabet that contains 00, FF, small numbers and the TLV's own type code: every
/// string up to length n, for every named type and a few raw type bytes (all 256 in the thorough tier).
pub struct SmallValues {
    pub n: usize,
    pub all_raw: bool,
}

impl SmallValues {
    fn kinds(&self) -> Vec<(bool, u8)> {
        let mut k: Vec<(bool, u8)> = (0..12u8).map(|i| (false, i)).collect();
        if self.all_raw {
            k.extend((0..=255u8).map(|b| (true, b)));
        } else {
            k.extend([0x00u8, 0x03, 0x05, 0x20, 0xee, 0xff].map(|b| (true, b)));
        }
        k
    }
}

impl Universe for SmallValues {
    fn name(&self) -> String {
        "U7-small-values".into()
    }
    fn bound(&self) -> Value {
        json!({"mode": "one TLV whose value is every string over {00,01,02,03,FF,own type code,a,.} of length <= n, written after an IPv4 block", "n": self.n, "kinds": self.kinds().len()})
    }
    fn units(&self) -> usize {
        self.kinds().len()
    }
    fn roots(&self) -> u64 {
        self.kinds().len() as u64
    }
    fn run_unit(&self, u: usize, f: &mut dyn FnMut(&[u8])) {
        let (raw, kind) = self.kinds()[u];
        let code = if raw { kind } else { TYPES[kind as usize].1 };
        let sigma = [0x00u8, 0x01, 0x02, 0x03, 0xff, code, b'a', b'.'];
        let addr = representative_addresses()[1].clone();
        let mut value: Vec<u8> = Vec::new();
        fn rec(value: &mut Vec<u8>, left: usize, sigma: &[u8; 8], emit: &mut dyn FnMut(&[u8])) {
            emit(value);
            if left == 0 {
                return;
            }
            for &b in sigma {
                value.push(b);
                rec(value, left - 1, sigma, emit);
                value.pop();
            }
        }
        rec(&mut value, self.n, &sigma, &mut |v: &[u8]| {
            let case = encode(1, 1, &addr, &[TlvSpec::with_value(raw, kind, v)]);
            f(&case);
        });
    }
}

pub fn run(run: &Run) {
    let thorough = run.tier == Tier::Thorough;
    let heads: Vec<[u8; 2]> = (0..2u8).flat_map(|c| (0..3u8).map(move |t| [c, t])).collect();
    let tails = vec![
        tail(&[]),
        tail(&[TlvSpec { mode: 0, kind: 3, len: 1, explicit: None }]),
        tail(&[TlvSpec { mode: 0, kind: 0, len: 3, explicit: None }, TlvSpec { mode: 1, kind: 0xee, len: 0, explicit: None }]),
        tail(&[TlvSpec { mode: 0, kind: 5, len: 300, explicit: None }]),
        tail(&[TlvSpec { mode: 1, kind: 0xff, len: 2, explicit: None }, TlvSpec { mode: 0, kind: 4, len: 257, explicit: None }, TlvSpec { mode: 0, kind: 11, len: 1, explicit: None }]),
        tail(&[TlvSpec { mode: 0, kind: 1, len: 0, explicit: None }, TlvSpec { mode: 0, kind: 1, len: 0, explicit: None }]),
    ];
    run.explore(&Decorated { inner: AddrValues { per_group: thorough, with_unix: true }, heads, tails });
    run.explore(&SmallValues { n: run.tier.pick(5, 6), all_raw: thorough });
    run.explore(&ListUniverse { name: "U7-tlv-lists".into(), what: "one address per family x every TLV list of length <= 2 over the full menu, length-3(-4) lists over a reduced menu, totals of exactly 65533 / 65534 / 65535 payload bytes".into(), cases: list_cases(thorough) });
}
