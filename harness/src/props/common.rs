//! Helpers shared by the property modules: calling the real entry points under `catch_unwind`, naming
//! outcomes, and the standard universe sets per tier.

use crate::engine::*;
use crate::universe::{self, v1 as u1, v2 as u2};
use ppp::v1;
use ppp::v2;

pub type V1B<'a> = Result<Result<v1::Header<'a>, v1::BinaryParseError>, String>;
pub type V1S<'a> = Result<Result<v1::Header<'a>, v1::ParseError>, String>;
pub type V2R<'a> = Result<Result<v2::Header<'a>, v2::ParseError>, String>;

#[inline]
pub fn v1_bytes(input: &[u8]) -> V1B<'_> {
    guard(|| v1::Header::try_from(input))
}

#[inline]
pub fn v1_str(input: &str) -> V1S<'_> {
    guard(|| v1::Header::try_from(input))
}

#[inline]
pub fn v2_parse(input: &[u8]) -> V2R<'_> {
    guard(|| v2::Header::try_from(input))
}

pub fn v1_err_name(e: &v1::ParseError) -> &'static str {
    use v1::ParseError::*;
    match e {
        InvalidPrefix => "InvalidPrefix",
        Partial => "Partial",
        MissingPrefix => "MissingPrefix",
        MissingNewLine => "MissingNewLine",
        MissingProtocol => "MissingProtocol",
        MissingSourceAddress => "MissingSourceAddress",
        MissingDestinationAddress => "MissingDestinationAddress",
        MissingSourcePort => "MissingSourcePort",
        MissingDestinationPort => "MissingDestinationPort",
        HeaderTooLong => "HeaderTooLong",
        InvalidProtocol => "InvalidProtocol",
        InvalidSuffix => "InvalidSuffix",
        InvalidSourceAddress(_) => "InvalidSourceAddress",
        InvalidDestinationAddress(_) => "InvalidDestinationAddress",
        InvalidSourcePort(_) => "InvalidSourcePort",
        InvalidDestinationPort(_) => "InvalidDestinationPort",
        #[allow(unreachable_patterns)]
        _ => "OtherV1Error",
    }
}

pub fn v1b_err_name(e: &v1::BinaryParseError) -> &'static str {
    match e {
        v1::BinaryParseError::Parse(p) => v1_err_name(p),
        v1::BinaryParseError::InvalidUtf8(_) => "InvalidUtf8",
        #[allow(unreachable_patterns)]
        _ => "OtherV1BinaryError",
    }
}

pub fn v1_ok_name(h: &v1::Header) -> &'static str {
    match h.addresses {
        v1::Addresses::Unknown => "Ok(UNKNOWN)",
        v1::Addresses::Tcp4(_) => "Ok(TCP4)",
        v1::Addresses::Tcp6(_) => "Ok(TCP6)",
        #[allow(unreachable_patterns)]
        _ => "Ok(other)",
    }
}

pub fn v1b_name(r: &V1B) -> &'static str {
    match r {
        Err(_) => "PANIC",
        Ok(Ok(h)) => v1_ok_name(h),
        Ok(Err(e)) => v1b_err_name(e),
    }
}

pub fn v1s_name(r: &V1S) -> &'static str {
    match r {
        Err(_) => "PANIC",
        Ok(Ok(h)) => v1_ok_name(h),
        Ok(Err(e)) => v1_err_name(e),
    }
}

pub fn v2_err_name(e: &v2::ParseError) -> &'static str {
    use v2::ParseError::*;
    match e {
        Incomplete(_) => "Incomplete",
        Prefix => "Prefix",
        Version(_) => "Version",
        Command(_) => "Command",
        AddressFamily(_) => "AddressFamily",
        Protocol(_) => "Protocol",
        Partial(..) => "Partial",
        InvalidAddresses(..) => "InvalidAddresses",
        InvalidTLV(..) => "InvalidTLV",
        Leftovers(_) => "Leftovers",
        #[allow(unreachable_patterns)]
        _ => "OtherV2Error",
    }
}

pub fn v2_name(r: &V2R) -> &'static str {
    match r {
        Err(_) => "PANIC",
        Ok(Ok(h)) => match h.addresses {
            v2::Addresses::Unspecified => "Ok(unspec)",
            v2::Addresses::IPv4(_) => "Ok(ipv4)",
            v2::Addresses::IPv6(_) => "Ok(ipv6)",
            v2::Addresses::Unix(_) => "Ok(unix)",
            #[allow(unreachable_patterns)]
            _ => "Ok(other)",
        },
        Ok(Err(e)) => v2_err_name(e),
    }
}

pub fn starts_with_keyword(input: &[u8]) -> bool {
    input.starts_with(b"PROXY ")
}

/// The v1 universes shared by C01, C03, C15, C16, C18 (and sources of accepted headers for C04, C05).
pub struct V1Bounds {
    pub k: usize,
    pub d_all: usize,
    pub d_boundary: usize,
    pub d_empty: usize,
    pub utf_suffix: usize,
}

pub fn v1_bounds(tier: Tier) -> V1Bounds {
    match tier {
        Tier::Quick => V1Bounds { k: 4, d_all: 3, d_boundary: 4, d_empty: 6, utf_suffix: 0 },
        Tier::Thorough => V1Bounds { k: 5, d_all: 5, d_boundary: 6, d_empty: 7, utf_suffix: 2 },
    }
}

/// Bounds for the properties whose judge does heavy work per *accepted* input (every trailer, every prefix).
pub fn v1_bounds_derived(tier: Tier) -> V1Bounds {
    match tier {
        Tier::Quick => V1Bounds { k: 3, d_all: 3, d_boundary: 4, d_empty: 5, utf_suffix: 0 },
        Tier::Thorough => V1Bounds { k: 4, d_all: 4, d_boundary: 5, d_empty: 7, utf_suffix: 2 },
    }
}

pub fn v1_universes(b: &V1Bounds) -> Vec<Box<dyn Universe>> {
    vec![
        Box::new(u1::tcp4_universe(b.k)),
        Box::new(u1::tcp6_universe(b.k)),
        Box::new(u1::unknown_universe(6)), // six slots: the full product
        Box::new(u1::len_universe()),
        Box::new(u1::utf_universe(b.utf_suffix)),
        Box::new(u1::anybyte_universe()),
        Box::new(u1::byte_universe("U1-byte/all-stems", u1::all_stems(), b.d_all)),
        Box::new(u1::byte_universe("U1-byte/boundary-stems", u1::boundary_stems(), b.d_boundary)),
        Box::new(u1::byte_universe("U1-byte/empty-stem", vec![vec![]], b.d_empty)),
    ]
}

pub fn explore_all(run: &Run, us: &[Box<dyn Universe>]) {
    for u in us {
        run.explore(u.as_ref());
    }
}

pub fn v2_universes(tier: Tier) -> Vec<Box<dyn Universe>> {
    vec![
        Box::new(u2::CtlUniverse),
        Box::new(u2::LenUniverse {
            presents: tier.pick(u2::Presents::EveryUpTo(256), u2::Presents::EveryUpTo(8192)),
            name: "U2-len",
        }),
        Box::new(u2::sig_universe_with(tier == Tier::Thorough)),
        Box::new(u2::addr_universe()),
        Box::new(u2::anybyte_universe()),
        Box::new(u2::byte_universe(tier.pick(4, 6))),
    ]
}

#[allow(dead_code)]
pub fn _unused(_: &universe::ListUniverse) {}

/// Runs every parse entry point on `input` and discards the results (warming whatever state a parser may keep).
pub fn warm_all(input: &[u8]) {
    let _ = v1::Header::try_from(input).map(|h| h.header.len());
    if let Ok(s) = std::str::from_utf8(input) {
        let _ = v1::Header::try_from(s).map(|h| h.header.len());
    }
    let _ = v2::Header::try_from(input).map(|h| (h.len(), h.tlvs().take(8).count()));
    let _ = ppp::HeaderResult::parse(input);
}

pub fn v1_seq_pool() -> Vec<Vec<u8>> {
    let mut p: Vec<Vec<u8>> = [
        "PROXY TCP4 1.2.3.4 5.6.7.8 80 443\r\n",
        "PROXY TCP4 1.2.3.4 5.6.7.8 80 44\r\n",
        "PROXY TCP4 9.9.9.9 8.8.8.8 1 2\r\nGET / HTTP/1.1\r\n\r\n",
        "PROXY TCP6 1:2:3:4:5:6:7:8 ::1 65535 0\r\n",
        "PROXY TCP6 ::1 ::1a 1 2\r\n",
        "PROXY TCP6 ::1a ::1 2 1\r\n",
        "PROXY UNKNOWN 1.2.3.4 5.6.7.8 80 443\r\n",
        "PROXY UNKNOWN\r\n",
        "PROXY UNKNOWN\r\nGET / HTTP/1.1\r\nHost: x\r\n\r\n",
        "PROXY UNKNOWN \u{e9}\u{e9}\r\n",
        "PROXY UNKNOWN a",
        "PROXY TCP4 1.2.3.4 5.6",
        "PRO",
        "PROXY TCP4 1.2.3.4 5.6.7.8 80 443 \r\n",
        "HELLO\r\n",
    ]
    .iter()
    .map(|s| s.as_bytes().to_vec())
    .collect();
    p.push(vec![b'x'; 60]);
    p.push(b"PROXY UNKNOWN \xff\r\n".to_vec());
    p
}

pub fn v2_seq_pool() -> Vec<Vec<u8>> {
    use crate::oracle::v2::SIG;
    let head = |vc: u8, afp: u8, payload: &[u8]| -> Vec<u8> {
        let mut h = SIG.to_vec();
        h.push(vc);
        h.push(afp);
        h.push((payload.len() >> 8) as u8);
        h.push(payload.len() as u8);
        h.extend_from_slice(payload);
        h
    };
    let a = head(0x21, 0x11, &[10, 1, 2, 3, 10, 3, 2, 1, 0x1f, 0x90, 0x01, 0xbb]);
    let b = head(0x21, 0x11, &[10, 9, 8, 7, 172, 16, 0, 1, 0x00, 0x50, 0xff, 0xfe, 4, 0, 1, 7]);
    let c6: Vec<u8> = (0..36).map(|i| 0x40 + i as u8).collect();
    let ux: Vec<u8> = (0..216).map(|i| (i * 3 + 1) as u8).collect();
    let mut a_tail = a.clone();
    a_tail.extend_from_slice(b"GET /");
    vec![
        a.clone(),
        b,
        head(0x21, 0x21, &c6),
        head(0x21, 0x31, &ux),
        head(0x20, 0x00, &[1, 0, 1, 9]),
        a[..20].to_vec(),
        a_tail,
        head(0x20, 0x12, &[10, 1, 2, 3, 10, 3, 2, 1, 0x1f, 0x90, 0x01, 0xbb]),
    ]
}

pub fn seq_universes(tier: Tier, v1: bool, v2: bool) -> Vec<Box<dyn Universe>> {
    let mut out: Vec<Box<dyn Universe>> = Vec::new();
    if v1 {
        out.push(Box::new(SeqUniverse { name: "USeq-v1".into(), pool: v1_seq_pool(), depth: tier.pick(3, 4) }));
    }
    if v2 {
        out.push(Box::new(SeqUniverse { name: "USeq-v2".into(), pool: v2_seq_pool(), depth: tier.pick(5, 6) }));
    }
    out
}

fn short(s: String) -> String {
    if s.len() > 600 { format!("{}…", &s[..s.char_indices().take_while(|(i, _)| *i < 600).last().map_or(0, |(i, c)| i + c.len_utf8())]) } else { s }
}

/// The parse entry points as printable outcomes (for `history_differential`).
pub fn parse_entries() -> Vec<(&'static str, Outcome)> {
    fn e_v1_bytes(i: &[u8]) -> String {
        short(match guard(|| v1::Header::try_from(i)) { Ok(r) => format!("{:?}", r), Err(p) => format!("PANIC: {}", p) })
    }
    fn e_v1_str(i: &[u8]) -> String {
        match std::str::from_utf8(i) {
            Ok(s) => short(match guard(|| (v1::Header::try_from(s), s.parse::<v1::Addresses>(), s.parse::<v1::Header<'static>>())) { Ok(r) => format!("{:?}", r), Err(p) => format!("PANIC: {}", p) }),
            Err(_) => "not UTF-8".into(),
        }
    }
    fn e_v2(i: &[u8]) -> String {
        short(match guard(|| v2::Header::try_from(i).map(|h| (h.command, h.protocol, h.addresses, h.len(), h.address_bytes().len(), h.tlvs().take(16).map(|t| t.map(|t| (t.kind, t.value.len())).map_err(|e| format!("{:?}", e))).collect::<Vec<_>>()))) { Ok(r) => format!("{:?}", r), Err(p) => format!("PANIC: {}", p) })
    }
    fn e_auto(i: &[u8]) -> String {
        short(match guard(|| {
            let r = ppp::HeaderResult::parse(i);
            match &r {
                ppp::HeaderResult::V2(Ok(h)) => format!("V2(Ok({:?} {:?} {} bytes))", h.command, h.addresses, h.len()),
                other => format!("{:?}", other),
            }
        }) { Ok(r) => r, Err(p) => format!("PANIC: {}", p) })
    }
    vec![("v1::Header::try_from(&[u8])", e_v1_bytes as Outcome), ("v1 text entry points", e_v1_str as Outcome), ("v2::Header::try_from(&[u8])", e_v2 as Outcome), ("HeaderResult::parse", e_auto as Outcome)]
}
