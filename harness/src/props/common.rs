//! Helpers shared by the property modules: calling the real entry points under `catch_unwind`, naming
//! outcomes, and the standard universe sets per tier.

use crate::engine::*;
use crate::universe::{self, v1 as u1, v2 as u2};
use ppp::v1;
use ppp::v2;

pub type V1B<'a> = Result<Result<v1::Header<'a>, v1::BinaryParseError>, String>;
pub type V1S<'a> = Result<Result<v1::Header<'a>, v1::ParseError>, String>;
pub type V2R<'a> = Result<Result<v2::Header<'a>, v2::ParseError>, String>;

#[inline]
pub fn v1_bytes(input: &[u8]) -> V1B<'_> {
    guard(|| v1::Header::try_from(input))
}

#[inline]
pub fn v1_str(input: &str) -> V1S<'_> {
    guard(|| v1::Header::try_from(input))
}

#[inline]
pub fn v2_parse(input: &[u8]) -> V2R<'_> {
    guard(|| v2::Header::try_from(input))
}

pub fn v1_err_name(e: &v1::ParseError) -> &'static str {
    use v1::ParseError::*;
    match e {
        InvalidPrefix => "InvalidPrefix",
        Partial => "Partial",
        MissingPrefix => "MissingPrefix",
        MissingNewLine => "MissingNewLine",
        MissingProtocol => "MissingProtocol",
        MissingSourceAddress => "MissingSourceAddress",
        MissingDestinationAddress => "MissingDestinationAddress",
        MissingSourcePort => "MissingSourcePort",
        MissingDestinationPort => "MissingDestinationPort",
        HeaderTooLong => "HeaderTooLong",
        InvalidProtocol => "InvalidProtocol",
        InvalidSuffix => "InvalidSuffix",
        InvalidSourceAddress(_) => "InvalidSourceAddress",
        InvalidDestinationAddress(_) => "InvalidDestinationAddress",
        InvalidSourcePort(_) => "InvalidSourcePort",
        InvalidDestinationPort(_) => "InvalidDestinationPort",
    }
}

pub fn v1b_err_name(e: &v1::BinaryParseError) -> &'static str {
    match e {
        v1::BinaryParseError::Parse(p) => v1_err_name(p),
        v1::BinaryParseError::InvalidUtf8(_) => "InvalidUtf8",
    }
}

pub fn v1_ok_name(h: &v1::Header) -> &'static str {
    match h.addresses {
        v1::Addresses::Unknown => "Ok(UNKNOWN)",
        v1::Addresses::Tcp4(_) => "Ok(TCP4)",
        v1::Addresses::Tcp6(_) => "Ok(TCP6)",
    }
}

pub fn v1b_name(r: &V1B) -> &'static str {
    match r {
        Err(_) => "PANIC",
        Ok(Ok(h)) => v1_ok_name(h),
        Ok(Err(e)) => v1b_err_name(e),
    }
}

pub fn v1s_name(r: &V1S) -> &'static str {
    match r {
        Err(_) => "PANIC",
        Ok(Ok(h)) => v1_ok_name(h),
        Ok(Err(e)) => v1_err_name(e),
    }
}

pub fn v2_err_name(e: &v2::ParseError) -> &'static str {
    use v2::ParseError::*;
    match e {
        Incomplete(_) => "Incomplete",
        Prefix => "Prefix",
        Version(_) => "Version",
        Command(_) => "Command",
        AddressFamily(_) => "AddressFamily",
        Protocol(_) => "Protocol",
        Partial(..) => "Partial",
        InvalidAddresses(..) => "InvalidAddresses",
        InvalidTLV(..) => "InvalidTLV",
        Leftovers(_) => "Leftovers",
    }
}

pub fn v2_name(r: &V2R) -> &'static str {
    match r {
        Err(_) => "PANIC",
        Ok(Ok(h)) => match h.addresses {
            v2::Addresses::Unspecified => "Ok(unspec)",
            v2::Addresses::IPv4(_) => "Ok(ipv4)",
            v2::Addresses::IPv6(_) => "Ok(ipv6)",
            v2::Addresses::Unix(_) => "Ok(unix)",
        },
        Ok(Err(e)) => v2_err_name(e),
    }
}

pub fn starts_with_keyword(input: &[u8]) -> bool {
    input.starts_with(b"PROXY ")
}

/// The v1 universes shared by C01, C03, C15, C16, C18 (and sources of accepted headers for C04, C05).
pub struct V1Bounds {
    pub k: usize,
    pub d_all: usize,
    pub d_boundary: usize,
    pub d_empty: usize,
    pub utf_suffix: usize,
}

pub fn v1_bounds(tier: Tier) -> V1Bounds {
    match tier {
        Tier::Quick => V1Bounds { k: 4, d_all: 3, d_boundary: 4, d_empty: 6, utf_suffix: 0 },
        Tier::Thorough => V1Bounds { k: 5, d_all: 5, d_boundary: 6, d_empty: 7, utf_suffix: 2 },
    }
}

/// Bounds for the properties whose judge does heavy work per *accepted* input (every trailer, every prefix).
pub fn v1_bounds_derived(tier: Tier) -> V1Bounds {
    match tier {
        Tier::Quick => V1Bounds { k: 3, d_all: 3, d_boundary: 4, d_empty: 5, utf_suffix: 0 },
        Tier::Thorough => V1Bounds { k: 4, d_all: 4, d_boundary: 5, d_empty: 7, utf_suffix: 2 },
    }
}

pub fn v1_universes(b: &V1Bounds) -> Vec<Box<dyn Universe>> {
    vec![
        Box::new(u1::tcp4_universe(b.k)),
        Box::new(u1::tcp6_universe(b.k)),
        Box::new(u1::unknown_universe(6)), // six slots: the full product
        Box::new(u1::len_universe()),
        Box::new(u1::utf_universe(b.utf_suffix)),
        Box::new(u1::byte_universe("U1-byte/all-stems", u1::all_stems(), b.d_all)),
        Box::new(u1::byte_universe("U1-byte/boundary-stems", u1::boundary_stems(), b.d_boundary)),
        Box::new(u1::byte_universe("U1-byte/empty-stem", vec![vec![]], b.d_empty)),
    ]
}

pub fn explore_all(run: &Run, us: &[Box<dyn Universe>]) {
    for u in us {
        run.explore(u.as_ref());
    }
}

pub fn v2_universes(tier: Tier) -> Vec<Box<dyn Universe>> {
    vec![
        Box::new(u2::CtlUniverse),
        Box::new(u2::LenUniverse {
            presents: tier.pick(u2::Presents::Boundaries, u2::Presents::EveryUpTo(512)),
            name: "U2-len",
        }),
        Box::new(u2::sig_universe()),
        Box::new(u2::addr_universe()),
        Box::new(u2::byte_universe(tier.pick(4, 5))),
    ]
}

#[allow(dead_code)]
pub fn _unused(_: &universe::ListUniverse) {}
