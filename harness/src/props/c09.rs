//! C09 — builder length field is never stale, truncated or silently wrong.

use super::builder_mc::{self as mc, Which};
use crate::engine::*;

pub fn def() -> PropDef {
    PropDef {
        id: "C09",
        title: "Builder length field is never stale, truncated or silently wrong",
        judge,
        run,
        shrink: Shrink::Ops,
        render: mc::render,
        rule: "explicit-state BFS over real Builder objects: every call history up to depth D over the main alphabet (54 calls: reserve_capacity, set_length(Some/None), every payload kind, batches, oversized values) from 7 constructors, over the boundary alphabet (slices of 65535 / 65519 / 16 / 1 bytes, big TLVs, set_length) and over a 10-call core alphabet to a greater depth; in every state build() is called on a replayed copy and bytes 14..16 are compared with the model (explicit length in force, else bytes following the fixed part; must fail above 65535 or on an oversized single value); non-trivial = history contains at least one write; distinct = hash of the history",
        assumptions: &["a write attempted when the buffer already holds more than 16+65535 bytes may be refused or accepted (the properties do not say); a refusal of a value that fits is recorded as an advisory note, not a verdict"],
    }
}

pub fn judge(case: &[u8], acc: &mut Acc) {
    mc::judge_history(case, acc, Which::C09);
}

pub fn run(run: &Run) {
    mc::run_searches(run, Which::C09);
}
