//! C04 — an accepted header never depends on or consumes the bytes that follow it.

use super::common::*;
use crate::engine::*;
use crate::oracle::v2 as o2;
use crate::universe::{v1 as u1, v2 as u2};
use ppp::{v1, v2, HeaderResult};
use std::sync::OnceLock;

pub fn def() -> PropDef {
    PropDef {
        id: "C04",
        title: "An accepted header never depends on or consumes the bytes that follow it",
        judge,
        run,
        shrink: Shrink::Bytes,
        render: render_seq_or_bytes,
        rule: "A = every input the real parsers accept in the v1 universes, UX, U2-ctl, U2-len (stride), U2-sig, U2-addr, U2-byte; each is re-parsed (v1 bytes, v1 text, v2, auto) as reported-header-only, as header ++ t and as input ++ t for every trailer t in T (all 256 single bytes, all 64 pairs over {0 . : a SP CR LF NUL}, a v1 header, a v2 header, 600 x, nine 300-byte texts of 2-/3-/4-byte characters at every alignment, four 300-byte fills of 0x80 / 0xC3 / CR / LF); results must be identical and the reported length must be first-CR+2 (v1) or 16+declared length (v2); non-trivial = accepted by some entry point; distinct = hash of the input",
        assumptions: &["trailers longer than 2 bytes are the three structured ones; longer arbitrary trailers are covered by the byte-tree universes themselves (an accepted stem followed by every string up to depth d)"],
    }
}

pub fn trailers() -> &'static Vec<Vec<u8>> {
    static T: OnceLock<Vec<Vec<u8>>> = OnceLock::new();
    T.get_or_init(|| {
        let mut t: Vec<Vec<u8>> = Vec::new();
        for b in 0..=255u8 {
            t.push(vec![b]);
        }
        let a = [b'0', b'.', b':', b'a', b' ', b'\r', b'\n', 0u8];
        for x in a {
            for y in a {
                t.push(vec![x, y]);
            }
        }
        t.push(u1::baselines()[0].clone());
        t.push(u2::baseline_headers()[0].clone());
        t.push(vec![b'x'; 600]);
        // alignment-complete text: whatever the header length, some trailer puts a 2-, 3- and 4-byte
        // character across every absolute offset of the buffer up to +300 (a parser that looks at a fixed
        // offset of the buffer, e.g. a scan window, then meets every way a character can straddle it)
        for (ch, w) in [("\u{e9}", 2usize), ("\u{20ac}", 3), ("\u{1f600}", 4)] {
            for pad in 0..w {
                let mut v = vec![b'x'; pad];
                while v.len() < 300 {
                    v.extend_from_slice(ch.as_bytes());
                }
                t.push(v);
            }
        }
        // the same for raw bytes: 0x80 / 0xC3 / CR / LF fills (not text: byte entry points only)
        for b in [0x80u8, 0xc3, b'\r', b'\n'] {
            t.push(vec![b; 300]);
        }
        t
    })
}

fn check_v1_bytes(acc: &mut Acc, input: &[u8], h: &v1::Header) {
    let entry = "v1::Header::try_from(&[u8])";
    let hdr = h.header.as_bytes();
    let cr = input.iter().position(|&b| b == b'\r');
    let want = cr.map(|c| c + 2);
    if want != Some(hdr.len()) || !input.starts_with(hdr) || !hdr.ends_with(b"\r\n") {
        acc.violation("reported-length-wrong", entry, format!("the line through its CRLF: {:?} bytes", want), format!("{} bytes: {:?}", hdr.len(), escape(hdr)));
        return;
    }
    let alone = v1_bytes(hdr);
    acc.eval(1);
    if !matches!(&alone, Ok(Ok(x)) if x == h) {
        acc.violation_on("header-alone-differs", entry, hdr.to_vec(), format!("{:?}", h), format!("{:?}", alone));
    }
    let mut buf = Vec::with_capacity(input.len() + 700);
    for (bi, base) in [hdr, input].into_iter().enumerate() {
        if bi == 1 && input.len() == hdr.len() {
            continue; // input == header: already covered
        }
        for t in trailers() {
            buf.clear();
            buf.extend_from_slice(base);
            buf.extend_from_slice(t);
            let r = v1_bytes(&buf);
            acc.eval(1);
            acc.validated(1);
            if !matches!(&r, Ok(Ok(x)) if x == h) {
                acc.violation_on("trailer-changes-result", entry, buf.clone(), format!("{:?}", h), format!("{:?}", r));
                return;
            }
        }
    }
}

fn check_v1_str(acc: &mut Acc, input: &str, h: &v1::Header) {
    let entry = "v1::Header::try_from(&str)";
    let hdr: &str = h.header.as_ref();
    let cr = input.find('\r');
    if cr.map(|c| c + 2) != Some(hdr.len()) || !input.starts_with(hdr) {
        acc.violation("reported-length-wrong", entry, format!("the line through its CRLF: {:?} bytes", cr.map(|c| c + 2)), format!("{} bytes: {:?}", hdr.len(), hdr));
        return;
    }
    let alone = v1_str(hdr);
    acc.eval(1);
    if !matches!(&alone, Ok(Ok(x)) if x == h) {
        acc.violation_on("header-alone-differs", entry, hdr.as_bytes().to_vec(), format!("{:?}", h), format!("{:?}", alone));
    }
    let mut buf = String::with_capacity(input.len() + 700);
    for t in trailers() {
        let ts = match std::str::from_utf8(t) {
            Ok(s) => s,
            Err(_) => continue,
        };
        buf.clear();
        buf.push_str(input);
        buf.push_str(ts);
        let r = v1_str(&buf);
        acc.eval(1);
        acc.validated(1);
        if !matches!(&r, Ok(Ok(x)) if x == h) {
            acc.violation_on("trailer-changes-result", entry, buf.as_bytes().to_vec(), format!("{:?}", h), format!("{:?}", r));
            return;
        }
    }
}

fn v2_same(a: &v2::Header, b: &v2::Header) -> bool {
    a.header.len() == b.header.len() && a.version == b.version && a.command == b.command && a.protocol == b.protocol && a.addresses == b.addresses && a.header == b.header
}

fn check_v2(acc: &mut Acc, input: &[u8], h: &v2::Header, auto: bool) {
    let entry = if auto { "HeaderResult::parse (v2)" } else { "v2::Header::try_from(&[u8])" };
    let hdr = h.as_bytes();
    let want = 16 + o2::be16(&input[14..16]) as usize;
    if hdr.len() != want || !input.starts_with(hdr) {
        acc.violation("reported-length-wrong", entry, format!("16 + declared length = {}", want), format!("{} bytes", hdr.len()));
        return;
    }
    let parse = |b: &[u8]| -> Option<v2::Header<'static>> {
        if auto {
            match guard(|| HeaderResult::parse(b)) {
                Ok(HeaderResult::V2(Ok(x))) => Some(x.to_owned()),
                _ => None,
            }
        } else {
            match v2_parse(b) {
                Ok(Ok(x)) => Some(x.to_owned()),
                _ => None,
            }
        }
    };
    // trailers are appended in place after the header (the header bytes are copied once)
    let mut buf = Vec::with_capacity(hdr.len() + 700);
    buf.extend_from_slice(hdr);
    let check_one = |acc: &mut Acc, buf: &[u8]| -> bool {
        acc.eval(1);
        acc.validated(1);
        let ok = if auto {
            matches!(guard(|| HeaderResult::parse(buf)), Ok(HeaderResult::V2(Ok(x))) if v2_same(&x, h))
        } else {
            matches!(v2_parse(buf), Ok(Ok(x)) if v2_same(&x, h))
        };
        if !ok {
            let got = parse(buf).map(|x| format!("Ok({} bytes, {:?})", x.len(), x.addresses)).unwrap_or_else(|| "not the same success".into());
            acc.violation_on("trailer-changes-result", entry, buf[..buf.len().min(4096)].to_vec(), format!("Ok({} bytes, {:?})", h.len(), h.addresses), got);
        }
        ok
    };
    if !check_one(acc, &buf) {
        return;
    }
    let small = hdr.len() <= 4096;
    for (i, t) in trailers().iter().enumerate() {
        if !small && i % 16 != 0 && i < 320 {
            continue;
        }
        buf.truncate(hdr.len());
        buf.extend_from_slice(t);
        if !check_one(acc, &buf) {
            return;
        }
    }
}

pub fn judge(case: &[u8], acc: &mut Acc) {
    match decode_seq(case) {
        Some(parts) => {
            history_differential(&parts, acc, &parse_entries());
            judge_history_case(&parts, acc, warm_all, judge_plain)
        }
        None => judge_plain(case, acc),
    }
}

pub fn judge_plain(input: &[u8], acc: &mut Acc) {
    let mut accepted = false;
    let r = v1_bytes(input);
    acc.eval(1);
    if let Ok(Ok(h)) = &r {
        accepted = true;
        acc.class("accepted", "v1 bytes");
        check_v1_bytes(acc, input, h);
        // auto-detection must give the same v1 answer with every trailer
        let a = guard(|| HeaderResult::parse(input));
        acc.eval(1);
        match &a {
            Ok(HeaderResult::V1(Ok(x))) if x == h => {
                let mut buf = Vec::with_capacity(input.len() + 700);
                for t in trailers() {
                    buf.clear();
                    buf.extend_from_slice(input);
                    buf.extend_from_slice(t);
                    acc.eval(1);
                    acc.validated(1);
                    let ok = matches!(guard(|| HeaderResult::parse(&buf)), Ok(HeaderResult::V1(Ok(x))) if &x == h);
                    if !ok {
                        acc.violation_on("trailer-changes-result", "HeaderResult::parse (v1)", buf.clone(), format!("{:?}", h), format!("{:?}", guard(|| HeaderResult::parse(&buf))));
                        break;
                    }
                }
            }
            _ => {} // disagreement between auto and v1 is C06's business
        }
    }
    if let Ok(s) = std::str::from_utf8(input) {
        let r = v1_str(s);
        acc.eval(1);
        if let Ok(Ok(h)) = &r {
            accepted = true;
            acc.class("accepted", "v1 text");
            check_v1_str(acc, s, h);
        }
    }
    let r = v2_parse(input);
    acc.eval(1);
    if let Ok(Ok(h)) = &r {
        accepted = true;
        acc.class("accepted", "v2");
        check_v2(acc, input, h, false);
        check_v2(acc, input, h, true);
    }
    if accepted {
        acc.nontrivial();
    } else {
        acc.class("not-accepted", "-");
    }
}

pub fn run(run: &Run) {
    let b = if run.tier == Tier::Thorough { v1_bounds(run.tier) } else { v1_bounds_derived(run.tier) };
    explore_all(run, &v1_universes(&b));
    run.explore(&super::c06::ux_bytes(run.tier.pick(5, 6)));
    run.explore(&super::c06::ux_mixed());
    run.explore(&u2::CtlUniverse);
    run.explore(&u2::LenUniverse { presents: u2::Presents::AcceptedStride(run.tier.pick(509, 61)), name: "U2-len/accepted-stride" });
    run.explore(&u2::sig_universe());
    run.explore(&u2::addr_universe());
    run.explore(&u2::anybyte_universe());
    run.explore(&u2::byte_universe(run.tier.pick(3, 4)));
    explore_all(run, &seq_universes(run.tier, true, true));
    run.explore(&super::c11::EmbeddedStructured::new(false));
    run.explore(&super::c11::NearMaxStructured { span: run.tier.pick(8, 35) });
}
