//! C17 — v2 incomplete errors state exactly how many bytes are present and needed.

use super::c02::v2_key;
use super::common::*;
use crate::engine::*;
use crate::oracle::v2 as o2;
use crate::universe::v2 as u2;
use ppp::v2;

pub fn def() -> PropDef {
    PropDef {
        id: "C17",
        title: "v2 incomplete errors state exactly how many bytes are present and needed",
        judge,
        run,
        shrink: Shrink::Bytes,
        render: render_bytes,
        rule: "truncated headers: 24 valid control pairs x every declared length x presence boundaries, every present count 0..16+len+1 for len <= L (quick 1024, thorough 4096), plus U2-ctl / U2-sig / U2-byte; for each Partial(have, need) the header is completed with need-have bytes of three fillers (must be Ok with len()==16+need) and with one byte fewer (must be Partial(need-1, need)); non-trivial = reference says incomplete; distinct = hash of (control bytes, length, bytes present)",
        assumptions: &["completion is exercised when need <= 1024, or need - have <= 16, or the declared length is within 3 of a boundary (0,12,36,216,255,256,4096,32768,65280,65535); other (length, cut) pairs check the counts only"],
    }
}

const FILLERS: [u8; 3] = [0x00, 0xff, 0x5a];

pub fn judge(input: &[u8], acc: &mut Acc) {
    let o = o2::verdict(input);
    let r = v2_parse(input);
    acc.eval(1);
    acc.class(o.name(), v2_name(&r));
    let entry = "v2::Header::try_from(&[u8])";
    // (a) whatever the input, the counts carried by an incomplete result are exact
    match &r {
        Ok(Err(v2::ParseError::Incomplete(n))) => {
            if *n != input.len() || input.len() >= 16 {
                acc.violation("incomplete-count-wrong", entry, format!("Incomplete({}) only while fewer than 16 bytes are supplied", input.len()), format!("Incomplete({}) on {} bytes", n, input.len()));
            }
        }
        Ok(Err(v2::ParseError::Partial(have, need))) => {
            let ok = input.len() >= 16 && *have == input.len() - 16 && *need == o2::be16(&input[14..16]) as usize && have < need;
            if !ok {
                acc.violation(
                    "partial-counts-wrong",
                    entry,
                    format!("Partial({}, {})", input.len() as isize - 16, if input.len() >= 16 { o2::be16(&input[14..16]) as isize } else { -1 }),
                    format!("Partial({}, {})", have, need),
                );
            }
        }
        _ => {}
    }
    // (a') whenever the parser says "need - have bytes are missing", supplying exactly those bytes must succeed
    if let Ok(Err(v2::ParseError::Partial(have, need))) = &r {
        if have < need && !matches!(o, o2::Verdict::Partial(..)) && (*need <= 1024 || need - have <= 16) {
            let mut buf = input.to_vec();
            buf.resize(input.len() + (need - have), 0x5a);
            let c = v2_parse(&buf);
            acc.eval(1);
            acc.validated(1);
            if !matches!(&c, Ok(Ok(h)) if h.len() == 16 + need) {
                acc.violation_on(
                    "completion-not-accepted",
                    entry,
                    buf.clone(),
                    format!("Ok after supplying the {} bytes that Partial({}, {}) says are missing", need - have, have, need),
                    format!("{:?}", c.as_ref().map(|x| x.as_ref().map(|h| h.len()))),
                );
            }
        }
    }
    // (b) a truncated well-formed header must be reported with exactly the reference counts
    match (&o, &r) {
        (o2::Verdict::Incomplete(n), got) => {
            acc.validated(1);
            acc.nontrivial_key(v2_key(input));
            if !matches!(got, Ok(Err(v2::ParseError::Incomplete(m))) if m == n) {
                acc.violation("truncated-fixed-part-misreported", entry, format!("Err(Incomplete({}))", n), format!("{:?}", got.as_ref().map(|x| x.as_ref().map(|h| h.len()))));
            }
        }
        (o2::Verdict::Partial(have, need), got) => {
            acc.validated(1);
            acc.nontrivial_key(v2_key(input));
            if !matches!(got, Ok(Err(v2::ParseError::Partial(a, b))) if a == have && b == need) {
                acc.violation("truncated-payload-misreported", entry, format!("Err(Partial({}, {}))", have, need), format!("{:?}", got.as_ref().map(|x| x.as_ref().map(|h| h.len()))));
                return;
            }
            let missing = need - have;
            if *need <= 1024 || missing <= 16 || u2::near_boundary(*need) {
                let mut buf = Vec::with_capacity(input.len() + missing);
                for f in FILLERS {
                    buf.clear();
                    buf.extend_from_slice(input);
                    buf.resize(input.len() + missing, f);
                    let c = v2_parse(&buf);
                    acc.eval(1);
                    acc.validated(1);
                    match &c {
                        Ok(Ok(h)) if h.len() == 16 + need && h.as_bytes().len() == 16 + need => {}
                        other => acc.violation_on(
                            "completion-not-accepted",
                            entry,
                            buf.clone(),
                            format!("Ok with len() == {} after supplying the {} missing bytes (filler {:#04x})", 16 + need, missing, f),
                            format!("{:?}", other.as_ref().map(|x| x.as_ref().map(|h| h.len()))),
                        ),
                    }
                    if missing >= 2 {
                        buf.pop();
                        let c = v2_parse(&buf);
                        acc.eval(1);
                        acc.validated(1);
                        if !matches!(&c, Ok(Err(v2::ParseError::Partial(a, b))) if *a == need - 1 && b == need) {
                            acc.violation_on(
                                "one-byte-short-misreported",
                                entry,
                                buf.clone(),
                                format!("Err(Partial({}, {}))", need - 1, need),
                                format!("{:?}", c.as_ref().map(|x| x.as_ref().map(|h| h.len()))),
                            );
                        }
                    }
                }
            }
        }
        _ => {}
    }
}

/// Truncations of headers whose payload is structured: every prefix of every embedded structured / grid TLV
/// header (<= 400 bytes), and the same present bytes under an inflated declared length (byte-swapped present
/// count, present+1, 2 x present, 4096, 65535) -- "the part that arrived looks complete under another reading".
pub struct StructuredTruncations {
    list: crate::universe::ListUniverse,
}

impl StructuredTruncations {
    pub fn new() -> Self {
        StructuredTruncations { list: u2::tlv_structured_universe(false) }
    }
}

impl Universe for StructuredTruncations {
    fn name(&self) -> String {
        "U17-structured-truncations".into()
    }
    fn bound(&self) -> serde_json::Value {
        serde_json::json!({"mode": "every prefix of every structured TLV header (sections <= 300 bytes, 3 families), and the whole present part under 5 inflated declared lengths"})
    }
    fn units(&self) -> usize {
        3 * 64
    }
    fn roots(&self) -> u64 {
        3
    }
    fn run_unit(&self, u: usize, f: &mut dyn FnMut(&[u8])) {
        let family = (u / 64) as u8 + 1;
        let part = u % 64;
        let mut buf = Vec::new();
        for (i, section) in self.list.cases.iter().enumerate() {
            if i % 64 != part || section.len() > 300 || !super::c11::embed(family, section, &mut buf) {
                continue;
            }
            let whole = buf.clone();
            for n in 0..whole.len() {
                f(&whole[..n]);
            }
            let present = whole.len() - 16;
            let swapped = ((present & 0xff) << 8) | (present >> 8);
            for declared in [swapped, present + 1, 2 * present, 4096, 65535] {
                if declared > present && declared <= 65535 {
                    let mut x = whole.clone();
                    x[14] = (declared >> 8) as u8;
                    x[15] = declared as u8;
                    f(&x);
                }
            }
        }
    }
}

pub fn run(run: &Run) {
    run.explore(&StructuredTruncations::new());
    run.explore(&u2::LenUniverse { presents: u2::Presents::EveryUpTo(run.tier.pick(1024, 4096)), name: "U2-len/every-cut" });
    run.explore(&u2::CtlUniverse);
    run.explore(&u2::sig_universe());
    run.explore(&u2::anybyte_universe());
    run.explore(&u2::byte_universe(run.tier.pick(3, 5)));
}
