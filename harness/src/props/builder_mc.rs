//! Explicit-state search over real `v2::Builder` objects (properties C09 and C10).
//!
//! A state is reached by a call history `[constructor, op, op, …]` (one byte each); live builders do not
//! clone, so a state is stored as its history and rebuilt by replay.  States are deduplicated by a hash
//! of the implementation's own `Debug` rendering (all fields of `Builder`) paired with the reference
//! model's state.  Every generated history is judged *before* deduplication; deduplication only prunes
//! expansion of states already expanded.

use crate::engine::*;
use crate::oracle::builder::{Effect, Model, Predict};
use crate::oracle::enc;
use ppp::v2::{self, Builder, Protocol, Type, TypeLengthValue, TypeLengthValues};
use rayon::prelude::*;
use serde_json::{json, Value};
use std::collections::HashSet;
use std::fmt::Write as _;
use std::io;
use std::sync::OnceLock;
use std::time::Instant;

pub struct Ctor {
    pub name: &'static str,
    pub make: fn() -> Builder,
    pub vc: u8,
    pub afp: u8,
    pub block: fn() -> Vec<u8>,
}

pub struct Op {
    pub name: &'static str,
    pub effect: fn() -> Effect,
    pub apply: fn(Builder) -> io::Result<Builder>,
}

fn big() -> &'static [u8] {
    static B: OnceLock<Vec<u8>> = OnceLock::new();
    B.get_or_init(|| (0..65536usize).map(|i| (i % 251) as u8).collect())
}

const V4_SRC: [u8; 4] = [1, 2, 3, 4];
const V4_DST: [u8; 4] = [5, 6, 7, 8];

fn v6_src() -> [u8; 16] {
    core::array::from_fn(|i| 0x10 + i as u8)
}
fn v6_dst() -> [u8; 16] {
    core::array::from_fn(|i| 0x30 + i as u8)
}
/// an abstract-namespace style path: leading NUL, an interior NUL, and non-zero bytes through the last position
fn ux_src() -> [u8; 108] {
    core::array::from_fn(|i| match i {
        0 | 4 => 0,
        _ => 1 + i as u8,
    })
}
/// an ordinary NUL-terminated path, zero padded
fn ux_dst() -> [u8; 108] {
    let mut a = [0u8; 108];
    a[..12].copy_from_slice(b"/run/pp.sock");
    a
}

pub fn ctors() -> &'static [Ctor] {
    static C: OnceLock<Vec<Ctor>> = OnceLock::new();
    C.get_or_init(|| {
        vec![
            Ctor { name: "Builder::new(0x21, 0x11)", make: || Builder::new(0x21, 0x11), vc: 0x21, afp: 0x11, block: Vec::new },
            Ctor { name: "Builder::new(0x20, 0x00)", make: || Builder::new(0x20, 0x00), vc: 0x20, afp: 0x00, block: Vec::new },
            Ctor { name: "Builder::new(0xFF, 0xAB)", make: || Builder::new(0xff, 0xab), vc: 0xff, afp: 0xab, block: Vec::new },
            Ctor {
                name: "Builder::with_addresses(0x21, Stream, Unspecified)",
                make: || Builder::with_addresses(0x21, Protocol::Stream, v2::Addresses::Unspecified),
                vc: 0x21,
                afp: 0x01,
                block: Vec::new,
            },
            Ctor {
                name: "Builder::with_addresses(0x21, Stream, IPv4 1.2.3.4:0x1234 -> 5.6.7.8:0x5678)",
                make: || Builder::with_addresses(0x21, Protocol::Stream, v2::IPv4::new(V4_SRC, V4_DST, 0x1234, 0x5678)),
                vc: 0x21,
                afp: 0x11,
                block: || enc::ipv4_block(V4_SRC, V4_DST, 0x1234, 0x5678),
            },
            Ctor {
                name: "Builder::with_addresses(0x20, Datagram, IPv6)",
                make: || Builder::with_addresses(0x20, Protocol::Datagram, v2::IPv6::new(v6_src(), v6_dst(), 0xa1a2, 0xb1b2)),
                vc: 0x20,
                afp: 0x22,
                block: || enc::ipv6_block(v6_src(), v6_dst(), 0xa1a2, 0xb1b2),
            },
            Ctor {
                name: "Builder::with_addresses(0x21, Unspecified, Unix)",
                make: || Builder::with_addresses(0x21, Protocol::Unspecified, v2::Unix::new(ux_src(), ux_dst())),
                vc: 0x21,
                afp: 0x30,
                block: || enc::unix_block(&ux_src(), &ux_dst()),
            },
        ]
    })
}

fn app(bytes: Vec<u8>) -> Effect {
    Effect::Append(bytes)
}

macro_rules! int_op {
    ($name:expr, $t:ty, $v:expr) => {
        Op {
            name: $name,
            effect: || app(enc::be_unsigned(($v as $t) as u128, std::mem::size_of::<$t>())),
            apply: |b| b.write_payload($v as $t),
        }
    };
}

/// seven well-formed TLVs of 10000 bytes each (70000 bytes)
fn big_section() -> &'static [u8] {
    static S: OnceLock<Vec<u8>> = OnceLock::new();
    S.get_or_init(|| {
        let mut v = Vec::with_capacity(70000);
        for i in 0..7u8 {
            v.extend_from_slice(&[0xe0 + i, 0x27, 0x0d]);
            v.extend((0..9997usize).map(|j| (j as u8).wrapping_mul(3).wrapping_add(i)));
        }
        v
    })
}

pub fn ops() -> &'static [Op] {
    static O: OnceLock<Vec<Op>> = OnceLock::new();
    O.get_or_init(|| {
        vec![
            // 0..=2 capacity hints
            Op { name: "reserve_capacity(0)", effect: || Effect::Reserve, apply: |b| Ok(b.reserve_capacity(0)) },
            Op { name: "reserve_capacity(5)", effect: || Effect::Reserve, apply: |b| Ok(b.reserve_capacity(5)) },
            Op { name: "reserve_capacity(100000)", effect: || Effect::Reserve, apply: |b| Ok(b.reserve_capacity(100000)) },
            // 3..=6 explicit length
            Op { name: "set_length(0u16)", effect: || Effect::SetLength(Some(0)), apply: |b| Ok(b.set_length(0u16)) },
            Op { name: "set_length(7u16)", effect: || Effect::SetLength(Some(7)), apply: |b| Ok(b.set_length(7u16)) },
            Op { name: "set_length(65535u16)", effect: || Effect::SetLength(Some(65535)), apply: |b| Ok(b.set_length(65535u16)) },
            Op { name: "set_length(None)", effect: || Effect::SetLength(None), apply: |b| Ok(b.set_length(None)) },
            // 7..=18 integers
            int_op!("write_payload(0xA1u8)", u8, 0xa1u8),
            int_op!("write_payload(0xB1B2u16)", u16, 0xb1b2u16),
            int_op!("write_payload(0xC1C2C3C4u32)", u32, 0xc1c2c3c4u32),
            int_op!("write_payload(0xD1D2D3D4D5D6D7D8u64)", u64, 0xd1d2d3d4d5d6d7d8u64),
            int_op!("write_payload(0xE0E1…EFu128)", u128, 0xe0e1e2e3e4e5e6e7e8e9eaebecedeeefu128),
            int_op!("write_payload(0x0102030405060708usize)", usize, 0x0102030405060708u64),
            int_op!("write_payload(-2i8)", i8, -2i8),
            int_op!("write_payload(-259i16)", i16, -259i16),
            int_op!("write_payload(-16909061i32)", i32, -16909061i32),
            int_op!("write_payload(i64::MIN + 7)", i64, i64::MIN + 7),
            int_op!("write_payload(-3i128)", i128, -3i128),
            int_op!("write_payload(-4isize)", isize, -4isize),
            // 19..=20 byte slices
            Op { name: "write_payload(&[][..])", effect: || app(vec![]), apply: |b| b.write_payload(&[0u8; 0][..]) },
            Op { name: "write_payload(&[0x51,0x52,0x53][..])", effect: || app(vec![0x51, 0x52, 0x53]), apply: |b| b.write_payload(&[0x51u8, 0x52, 0x53][..]) },
            // 21..=22 address values as payload
            Op {
                name: "write_payload(Addresses::IPv4(9.8.7.6:258 -> 5.4.3.2:772))",
                effect: || app(enc::ipv4_block([9, 8, 7, 6], [5, 4, 3, 2], 258, 772)),
                apply: |b| b.write_payload(v2::Addresses::IPv4(v2::IPv4::new([9, 8, 7, 6], [5, 4, 3, 2], 258, 772))),
            },
            Op { name: "write_payload(Addresses::Unspecified)", effect: || app(vec![]), apply: |b| b.write_payload(v2::Addresses::Unspecified) },
            // 23..=27 TLVs
            Op {
                name: "write_payload(TypeLengthValue::new(Type::NoOp, &[1,2]))",
                effect: || app(enc::tlv(enc::PP2_TYPE_NOOP, &[1, 2]).unwrap()),
                apply: |b| b.write_payload(TypeLengthValue::new(Type::NoOp, &[1, 2])),
            },
            Op {
                name: "write_payload((Type::NoOp, &[1,2][..]))",
                effect: || app(enc::tlv(enc::PP2_TYPE_NOOP, &[1, 2]).unwrap()),
                apply: |b| b.write_payload((Type::NoOp, &[1u8, 2][..])),
            },
            Op { name: "write_payload((4u8, &[1,2][..]))", effect: || app(enc::tlv(4, &[1, 2]).unwrap()), apply: |b| b.write_payload((4u8, &[1u8, 2][..])) },
            Op {
                name: "write_payload(TypeLengthValue::new(Type::Authority, &[]))",
                effect: || app(enc::tlv(enc::PP2_TYPE_AUTHORITY, &[]).unwrap()),
                apply: |b| b.write_payload(TypeLengthValue::new(Type::Authority, &[])),
            },
            Op {
                name: "write_payload(TypeLengthValues::from(&[4,0,1,9,0x20,0,0][..]))",
                effect: || app(vec![4, 0, 1, 9, 0x20, 0, 0]),
                apply: |b| b.write_payload(TypeLengthValues::from(&[4u8, 0, 1, 9, 0x20, 0, 0][..])),
            },
            // 28..=29 a Type and a reference
            Op { name: "write_payload(Type::SSL)", effect: || app(vec![enc::PP2_TYPE_SSL]), apply: |b| b.write_payload(Type::SSL) },
            Op { name: "write_payload(&0x7172u16)", effect: || app(vec![0x71, 0x72]), apply: |b| b.write_payload(&0x7172u16) },
            // 30..=31 write_tlv
            Op { name: "write_tlv(0xEEu8, &[9,8,7])", effect: || app(enc::tlv(0xee, &[9, 8, 7]).unwrap()), apply: |b| b.write_tlv(0xeeu8, &[9, 8, 7]) },
            Op { name: "write_tlv(Type::ALPN, &[])", effect: || app(enc::tlv(enc::PP2_TYPE_ALPN, &[]).unwrap()), apply: |b| b.write_tlv(Type::ALPN, &[]) },
            // 32..=35 batches
            Op { name: "write_payloads(Vec::<u8>::new())", effect: || app(vec![]), apply: |b| b.write_payloads(Vec::<u8>::new()) },
            Op { name: "write_payloads([0xA1u8])", effect: || app(vec![0xa1]), apply: |b| b.write_payloads([0xa1u8]) },
            Op { name: "write_payloads([0xB1B2u16, 0x0102u16])", effect: || app(vec![0xb1, 0xb2, 0x01, 0x02]), apply: |b| b.write_payloads([0xb1b2u16, 0x0102u16]) },
            Op {
                name: "write_payloads([(Type::NoOp,&[1,2]), (Type::ALPN,&[]), (Type::SSL,&[7])])",
                effect: || app([enc::tlv(4, &[1, 2]).unwrap(), enc::tlv(1, &[]).unwrap(), enc::tlv(0x20, &[7]).unwrap()].concat()),
                apply: |b| b.write_payloads(vec![(Type::NoOp, &[1u8, 2][..]), (Type::ALPN, &[][..]), (Type::SSL, &[7u8][..])]),
            },
            // 36..=40 refusals: a single value too large for a 16-bit length
            Op { name: "write_payload(&[u8; 65536][..])", effect: || Effect::Oversized, apply: |b| b.write_payload(big()) },
            Op { name: "write_payload(TypeLengthValue::new(1u8, &[u8; 65536]))", effect: || Effect::Oversized, apply: |b| b.write_payload(TypeLengthValue::new(1u8, big())) },
            Op { name: "write_payload((1u8, &[u8; 65536][..]))", effect: || Effect::Oversized, apply: |b| b.write_payload((1u8, big())) },
            Op { name: "write_tlv(1u8, &[u8; 65536])", effect: || Effect::Oversized, apply: |b| b.write_tlv(1u8, big()) },
            Op { name: "write_payloads([&[1u8][..], &[u8; 65536][..]])", effect: || Effect::Oversized, apply: |b| b.write_payloads([&[1u8][..], big()]) },
            // 41..=46 boundary alphabet
            Op { name: "write_payload(&[u8; 65535][..])", effect: || app(big()[..65535].to_vec()), apply: |b| b.write_payload(&big()[..65535]) },
            Op { name: "write_payload(&[u8; 65519][..])", effect: || app(big()[..65519].to_vec()), apply: |b| b.write_payload(&big()[..65519]) },
            Op { name: "write_payload(&[u8; 16][..])", effect: || app(big()[..16].to_vec()), apply: |b| b.write_payload(&big()[..16]) },
            Op { name: "write_payload(&[u8; 1][..])", effect: || app(big()[..1].to_vec()), apply: |b| b.write_payload(&big()[..1]) },
            Op { name: "write_tlv(5u8, &[u8; 65532])", effect: || app(enc::tlv(5, &big()[..65532]).unwrap()), apply: |b| b.write_tlv(5u8, &big()[..65532]) },
            Op { name: "write_tlv(5u8, &[u8; 65535])", effect: || app(enc::tlv(5, &big()[..65535]).unwrap()), apply: |b| b.write_tlv(5u8, &big()[..65535]) },
            // (60) a mid-size slice: after it the buffer's allocation, not its contents, exceeds the size limit
            // -- declared further down to keep indices stable --
            // 47..=48 TLV sections that are not a clean run of whole items, or that were already iterated
            Op {
                name: "write_payload(TypeLengthValues::from(&[4,0,1,42,1,0][..]))  (stray tail)",
                effect: || app(vec![4, 0, 1, 42, 1, 0]),
                apply: |b| b.write_payload(TypeLengthValues::from(&[4u8, 0, 1, 42, 1, 0][..])),
            },
            Op {
                name: "write_payload({ let mut t = TypeLengthValues::from(&[4,0,1,42,1,0,0][..]); t.next(); t })  (already iterated)",
                effect: || app(vec![4, 0, 1, 42, 1, 0, 0]),
                apply: |b| {
                    let mut t = TypeLengthValues::from(&[4u8, 0, 1, 42, 1, 0, 0][..]);
                    let _ = t.next();
                    b.write_payload(t)
                },
            },
            // 49..=52 values of 255 bytes and more (two-byte lengths)
            Op {
                name: "write_payload((Type::SSLVersion, &[u8; 255][..]))",
                effect: || app(enc::tlv(enc::PP2_SUBTYPE_SSL_VERSION, &big()[..255]).unwrap()),
                apply: |b| b.write_payload((Type::SSLVersion, &big()[..255])),
            },
            Op {
                name: "write_payload(TypeLengthValue::new(0x30u8, &[u8; 256]))",
                effect: || app(enc::tlv(0x30, &big()[..256]).unwrap()),
                apply: |b| b.write_payload(TypeLengthValue::new(0x30u8, &big()[..256])),
            },
            Op {
                name: "write_tlv(Type::UniqueId, &[u8; 300])",
                effect: || app(enc::tlv(enc::PP2_TYPE_UNIQUE_ID, &big()[..300]).unwrap()),
                apply: |b| b.write_tlv(Type::UniqueId, &big()[..300]),
            },
            Op {
                name: "write_payloads([(Type::CRC32C, &[u8; 256][..]), (Type::NoOp, &[u8; 255][..])])",
                effect: || app([enc::tlv(enc::PP2_TYPE_CRC32C, &big()[..256]).unwrap(), enc::tlv(enc::PP2_TYPE_NOOP, &big()[..255]).unwrap()].concat()),
                apply: |b| b.write_payloads([(Type::CRC32C, &big()[..256]), (Type::NoOp, &big()[..255])]),
            },
            // 53..=54 batches handed over as iterators whose size_hint lower bound is 0
            Op {
                name: "write_payloads(vec![0xA1u8, 0xA2, 0xA3].into_iter().filter(|_| true))",
                effect: || app(vec![0xa1, 0xa2, 0xa3]),
                apply: |b| b.write_payloads(vec![0xa1u8, 0xa2, 0xa3].into_iter().filter(|_| true)),
            },
            Op {
                name: "write_payloads(std::iter::from_fn(..) yielding 0x0102u16, 0x0304u16)",
                effect: || app(vec![1, 2, 3, 4]),
                apply: |b| {
                    let mut n = 0u16;
                    let items: Vec<u16> = std::iter::from_fn(|| {
                        n += 1;
                        if n <= 2 { Some(n * 0x0202 - 0x0100) } else { None }
                    })
                    .collect();
                    let mut it = items.into_iter();
                    b.write_payloads(std::iter::from_fn(move || it.next()))
                },
            },
            // 55 one batch with two TLVs of the same type and length but different bytes
            Op {
                name: "write_payloads([(Type::UniqueId, b\"request-00000017....\"), (Type::UniqueId, b\"request-00000018....\")])",
                effect: || app([enc::tlv(enc::PP2_TYPE_UNIQUE_ID, b"request-00000017....").unwrap(), enc::tlv(enc::PP2_TYPE_UNIQUE_ID, b"request-00000018....").unwrap()].concat()),
                apply: |b| b.write_payloads([(Type::UniqueId, &b"request-00000017...."[..]), (Type::UniqueId, &b"request-00000018...."[..])]),
            },
            // 56..=57 values with a meaning of their own: an all-zero checksum, a value that looks like an encoded TLV of its own type
            Op {
                name: "write_tlv(Type::CRC32C, &[0, 0, 0, 0])",
                effect: || app(enc::tlv(enc::PP2_TYPE_CRC32C, &[0, 0, 0, 0]).unwrap()),
                apply: |b| b.write_tlv(Type::CRC32C, &[0, 0, 0, 0]),
            },
            Op {
                name: "write_payload(TypeLengthValue::new(1u8, &[u8; 65536]).to_owned())  (owned oversized value)",
                effect: || Effect::Oversized,
                apply: |b| b.write_payload(TypeLengthValue::new(1u8, big()).to_owned()),
            },
            Op {
                name: "write_payloads([(Type::SSL, &[1,0,0,0,0][..]), (Type::SSLVersion, b\"TLSv1.3\")])",
                effect: || app([enc::tlv(enc::PP2_TYPE_SSL, &[1, 0, 0, 0, 0]).unwrap(), enc::tlv(enc::PP2_SUBTYPE_SSL_VERSION, b"TLSv1.3").unwrap()].concat()),
                apply: |b| b.write_payloads([(Type::SSL, &[1u8, 0, 0, 0, 0][..]), (Type::SSLVersion, &b"TLSv1.3"[..])]),
            },
            Op {
                name: "write_payload((5u8, &[5, 0, 2, 0xAB, 0xCD][..]))",
                effect: || app(enc::tlv(5, &[5, 0, 2, 0xab, 0xcd]).unwrap()),
                apply: |b| b.write_payload((5u8, &[5u8, 0, 2, 0xab, 0xcd][..])),
            },
            Op { name: "write_payload(&[u8; 40000][..])", effect: || app(big()[..40000].to_vec()), apply: |b| b.write_payload(&big()[..40000]) },
            // 61 a Unix address block as a payload (paths with NULs before non-zero bytes)
            Op {
                name: "write_payload(Addresses::Unix(\"\\0abs\\0...\" -> \"/run/pp.sock\"))",
                effect: || app(enc::unix_block(&ux_dst(), &ux_src())),
                apply: |b| b.write_payload(v2::Addresses::Unix(v2::Unix::new(ux_dst(), ux_src()))),
            },
            // 62..=63 batches longer than any chunk size a batching refactor would pick (8, 16): nine items of which the
            // first eight encode to nothing, and seventeen small TLVs
            Op {
                name: "write_payloads([&[][..]; 8] ++ [&[0x5A][..]])",
                effect: || app(vec![0x5a]),
                apply: |b| {
                    let mut items: Vec<&[u8]> = vec![&[][..]; 8];
                    items.push(&[0x5a][..]);
                    b.write_payloads(items)
                },
            },
            Op {
                name: "write_payloads((0..17).map(|i| (0xE0 + i, &[i][..])))",
                effect: || app((0..17u8).flat_map(|i| enc::tlv(0xe0 + i, &[i]).unwrap()).collect()),
                apply: |b| {
                    let vals: Vec<[u8; 1]> = (0..17u8).map(|i| [i]).collect();
                    b.write_payloads(vals.iter().enumerate().map(|(i, v)| (0xe0u8 + i as u8, &v[..])))
                },
            },
            // 64 the byte-swapped partner of set_length(7)
            Op { name: "set_length(0x0700u16)", effect: || Effect::SetLength(Some(0x0700)), apply: |b| Ok(b.set_length(0x0700u16)) },
            // 65 a TLV section longer than a u16 can count (seven 10000-byte items): only an explicit length lets it be built
            Op {
                name: "write_payload(TypeLengthValues::from(&[7 x (type, 0x27 0x0D, 9997 bytes)][..]))  (70000 bytes)",
                effect: || app(big_section().to_vec()),
                apply: |b| b.write_payload(TypeLengthValues::from(big_section())),
            },
        ]
    })
}

/// the main alphabet: ops 0..=40, 47..=59 and 61..=64
pub fn main_ops() -> Vec<u8> {
    (0..41u8).chain(47..60u8).chain(61..65u8).collect()
}
/// slices of 65535 / 65519 / 16 / 1 bytes, set_length(7), set_length(None), u8, big TLVs, 40000 bytes, a 70000-byte section
pub const BOUNDARY_OPS: [u8; 11] = [41, 42, 43, 44, 4, 6, 7, 45, 46, 60, 65];
/// the boundary alphabet plus one operation per write path (Type, u16, &u16, address block, TLV struct, (u8, bytes)
/// pair, TLV section, write_tlv, write_payloads of integers and of pairs), so that every `WriteToHeader` impl is met
/// in the states at and past the size limit
pub const LIMIT_OPS: [u8; 21] = [41, 42, 43, 44, 4, 6, 7, 45, 46, 60, 28, 8, 29, 21, 23, 25, 27, 30, 33, 35, 65];
/// a small core alphabet for the deepest searches
pub const CORE_OPS: [u8; 12] = [1, 3, 4, 6, 7, 8, 20, 23, 34, 36, 19, 47];

pub fn render(case: &[u8]) -> Value {
    if case.is_empty() {
        return json!({"history": []});
    }
    let mut h: Vec<String> = Vec::new();
    h.push(ctors().get(case[0] as usize).map(|c| c.name.to_string()).unwrap_or_else(|| format!("<bad constructor {}>", case[0])));
    for &o in &case[1..] {
        h.push(ops().get(o as usize).map(|c| c.name.to_string()).unwrap_or_else(|| format!("<bad op {}>", o)));
    }
    h.push("build()".into());
    json!({ "history": h })
}

struct HashWriter(u64, u64);

impl std::fmt::Write for HashWriter {
    fn write_str(&mut self, s: &str) -> std::fmt::Result {
        for &b in s.as_bytes() {
            self.0 = (self.0 ^ b as u64).wrapping_mul(0x100000001b3);
            self.1 = (self.1.rotate_left(5) ^ b as u64).wrapping_mul(0x9e3779b97f4a7c15);
        }
        Ok(())
    }
}

#[derive(Copy, Clone, PartialEq)]
pub enum Which {
    C09,
    C10,
}

pub struct Outcome {
    /// None when the history ended in a refused operation (terminal state)
    pub key: Option<(u64, u64)>,
}

fn masked(mut v: Vec<u8>) -> Vec<u8> {
    if v.len() >= 16 {
        v[14] = 0;
        v[15] = 0;
    }
    v
}

fn first_diff(a: &[u8], b: &[u8]) -> usize {
    a.iter().zip(b.iter()).position(|(x, y)| x != y).unwrap_or(a.len().min(b.len()))
}

/// Replay `case` on a fresh real builder next to the reference model, then `build`.
pub fn judge_history(case: &[u8], acc: &mut Acc, which: Which) -> Outcome {
    // the operations themselves are guarded below; this catches what is not (the Debug rendering used as state key)
    match std::panic::catch_unwind(std::panic::AssertUnwindSafe(|| judge_history_inner(case, acc, which))) {
        Ok(o) => o,
        Err(_) => {
            let msg = last_panic();
            if panic_is_in_library(&msg) {
                acc.violation("panic-in-library-call", "a library call made while judging this history", "normal return".into(), msg);
                Outcome { key: None }
            } else {
                println!("MACHINERY-ERROR: the harness itself panicked while judging a builder history: {}", msg);
                std::process::exit(2);
            }
        }
    }
}

fn judge_history_inner(case: &[u8], acc: &mut Acc, which: Which) -> Outcome {
    let (ctor, rest) = match case.split_first() {
        Some((c, r)) if (*c as usize) < ctors().len() && r.iter().all(|o| (*o as usize) < ops().len()) => (&ctors()[*c as usize], r),
        _ => return Outcome { key: None },
    };
    let mut model = Model::new(ctor.vc, ctor.afp, (ctor.block)());
    let mut b = match guard(|| (ctor.make)()) {
        Ok(b) => b,
        Err(p) => {
            acc.violation("builder-panicked", ctor.name, "normal return".into(), p);
            return Outcome { key: None };
        }
    };
    acc.eval(1);
    let mut any_write = false;
    for (i, &o) in rest.iter().enumerate() {
        let op = &ops()[o as usize];
        let eff = (op.effect)();
        if matches!(eff, Effect::Append(_)) {
            any_write = true;
        }
        let p = model.apply(&eff);
        let r = guard(|| (op.apply)(b));
        acc.eval(1);
        match r {
            Err(pm) => {
                acc.violation("builder-panicked", op.name, "normal return".into(), pm);
                return Outcome { key: None };
            }
            Ok(Ok(nb)) => {
                if p == Predict::MustFail && which == Which::C09 {
                    acc.violation("oversized-value-accepted", op.name, format!("Err: a single value of 65536 bytes must be refused (call {} of the history)", i + 1), "Ok".into());
                    acc.class("refusal expected", "accepted");
                    return Outcome { key: None };
                }
                if p == Predict::MustFail {
                    return Outcome { key: None };
                }
                b = nb;
            }
            Ok(Err(e)) => {
                match p {
                    Predict::MustFail => acc.class("refusal expected", "refused"),
                    Predict::Unspecified => acc.class("write at the size limit (unspecified)", "refused"),
                    Predict::MustSucceed => {
                        acc.class("success expected", "refused");
                        acc.note(&format!("advisory: {} refused ({:?}) although the value fits (not a verdict of {})", op.name, e.kind(), if which == Which::C09 { "C09" } else { "C10" }), 1);
                    }
                }
                return Outcome { key: None };
            }
        }
    }
    // canonical implementation state
    let mut hw = HashWriter(0xcbf29ce484222325, 0x1234567);
    let _ = write!(hw, "{:?}", b);
    let mh = {
        let mut m = HashWriter(1, 2);
        let _ = write!(m, "{:?}|{:?}|{}|{}", model.explicit, model.block.len(), model.vc, model.afp);
        (m.0 ^ hash64(&model.payload), m.1)
    };
    let key = (hw.0 ^ mh.0.rotate_left(17), hw.1 ^ mh.1);
    // build
    let expected = model.build();
    let r = guard(|| b.build());
    acc.eval(1);
    acc.validated(1);
    if any_write {
        acc.nontrivial();
    }
    let oc = match (&expected, model.explicit.is_some()) {
        (Some(_), true) => "build succeeds, explicit length",
        (Some(_), false) => "build succeeds, computed length",
        (None, _) => "build must fail (> 65535 bytes, no explicit length)",
    };
    match r {
        Err(pm) => {
            acc.class(oc, "PANIC");
            acc.violation("builder-panicked", "build()", "normal return".into(), pm);
        }
        Ok(Err(e)) => {
            acc.class(oc, "Err");
            if expected.is_some() {
                acc.note(&format!("advisory: build() failed ({:?}) although the model expects success", e.kind()), 1);
            }
        }
        Ok(Ok(bytes)) => {
            acc.class(oc, "Ok");
            match (&expected, which) {
                (None, Which::C09) => {
                    let lf = if bytes.len() >= 16 { ((bytes[14] as usize) << 8) | bytes[15] as usize } else { 0 };
                    acc.violation(
                        "oversize-built-without-explicit-length",
                        "build()",
                        format!("Err: {} bytes follow the fixed part and no explicit length is in force", bytes.len().saturating_sub(16)),
                        format!("Ok with length field {}", lf),
                    );
                }
                (Some(exp), Which::C09) => {
                    if bytes.len() < 16 || bytes[14..16] != exp[14..16] {
                        let want = ((exp[14] as usize) << 8) | exp[15] as usize;
                        let got = if bytes.len() >= 16 { format!("{}", ((bytes[14] as usize) << 8) | bytes[15] as usize) } else { "<short output>".into() };
                        let why = match model.explicit {
                            Some(l) => format!("explicit length {} in force", l),
                            None => format!("{} bytes follow the fixed part", exp.len() - 16),
                        };
                        acc.violation("length-field-wrong", "build()", format!("length field {} ({})", want, why), format!("length field {}", got));
                    }
                }
                (exp, Which::C10) => {
                    let want = match exp {
                        Some(e) => masked(e.clone()),
                        None => {
                            let mut m2 = model.clone();
                            m2.explicit = Some(0);
                            masked(m2.build().unwrap())
                        }
                    };
                    let got = masked(bytes);
                    if got != want {
                        let at = first_diff(&got, &want);
                        acc.violation(
                            "output-is-not-the-concatenation",
                            "build()",
                            format!("{} bytes; around offset {}: {}", want.len(), at, hex(&want[at.saturating_sub(4).min(want.len())..want.len().min(at + 12)])),
                            format!("{} bytes; around offset {}: {}", got.len(), at, hex(&got[at.saturating_sub(4).min(got.len())..got.len().min(at + 12)])),
                        );
                    }
                }
            }
        }
    }
    Outcome { key: Some(key) }
}

pub struct SearchSpec {
    pub name: &'static str,
    pub ctors: Vec<u8>,
    pub ops: Vec<u8>,
    pub depth: usize,
}

pub struct SearchStats {
    pub states: u64,
    pub transitions: u64,
    pub terminal: u64,
    pub layers: Vec<u64>,
    pub completed: bool,
}

/// Breadth-first search; each transition applies one real call.  Returns statistics; observations go to `acc`.
pub fn search(run: &Run, spec: &SearchSpec, which: Which) -> (SearchStats, Acc) {
    let seed = run.seed;
    let mut seen: HashSet<(u64, u64)> = HashSet::new();
    let mut total = Acc::new(seed);
    let mut frontier: Vec<Vec<u8>> = Vec::new();
    let mut stats = SearchStats { states: 0, transitions: 0, terminal: 0, layers: Vec::new(), completed: true };
    // initial states
    for &c in &spec.ctors {
        let h = vec![c];
        total.begin(&h);
        let out = judge_history(&h, &mut total, which);
        total.end();
        if let Some(k) = out.key {
            if seen.insert(k) {
                frontier.push(h);
            }
        }
    }
    stats.states = frontier.len() as u64;
    stats.layers.push(frontier.len() as u64);
    for depth in 1..=spec.depth {
        if run.expired() {
            stats.completed = false;
            break;
        }
        let last = depth == spec.depth;
        let results: Vec<(Acc, Vec<((u64, u64), Vec<u8>)>, u64, u64, Vec<(u64, u64)>)> = frontier
            .par_chunks(64)
            .map(|chunk| {
                let mut acc = Acc::new(seed);
                let mut next: Vec<((u64, u64), Vec<u8>)> = Vec::new();
                let mut last_keys: Vec<(u64, u64)> = Vec::new();
                let mut transitions = 0u64;
                let mut terminal = 0u64;
                for h in chunk {
                    for &o in &spec.ops {
                        let mut nh = Vec::with_capacity(h.len() + 1);
                        nh.extend_from_slice(h);
                        nh.push(o);
                        acc.unit = hash64(h);
                        acc.begin(&nh);
                        let out = judge_history(&nh, &mut acc, which);
                        acc.end();
                        transitions += 1;
                        match out.key {
                            None => terminal += 1,
                            Some(k) => {
                                if last {
                                    last_keys.push(k);
                                } else {
                                    next.push((k, nh));
                                }
                            }
                        }
                    }
                }
                (acc, next, transitions, terminal, last_keys)
            })
            .collect();
        let mut new_frontier: Vec<Vec<u8>> = Vec::new();
        let mut new_states = 0u64;
        let mut deepest: Vec<(u64, u64)> = Vec::new();
        for (acc, next, tr, te, lk) in results {
            total = total.merge(acc);
            stats.transitions += tr;
            stats.terminal += te;
            for (k, h) in next {
                if seen.insert(k) {
                    new_states += 1;
                    new_frontier.push(h);
                }
            }
            deepest.extend(lk.into_iter().filter(|k| !seen.contains(k)));
        }
        if last {
            // the deepest layer is not expanded: its states are only counted (sort + dedup instead of a hash set)
            deepest.par_sort_unstable();
            deepest.dedup();
            new_states += deepest.len() as u64;
        }
        stats.states += new_states + 0;
        stats.layers.push(new_states);
        frontier = new_frontier;
        watchdog_touch();
    }
    stats.states += stats.terminal;
    (stats, total)
}

pub fn run_searches(run: &Run, which: Which) {
    let all_ctors: Vec<u8> = (0..ctors().len() as u8).collect();
    let (d_main, d_boundary, d_core, d_limit) = match run.tier {
        Tier::Quick => (3, 4, 6, 4),
        Tier::Thorough => (4, 6, 9, 5),
    };
    let specs = vec![
        SearchSpec { name: "UB-main", ctors: all_ctors.clone(), ops: main_ops(), depth: d_main },
        SearchSpec { name: "UB-boundary", ctors: vec![0, 4, 6], ops: BOUNDARY_OPS.to_vec(), depth: d_boundary },
        SearchSpec { name: "UB-core", ctors: vec![0, 4], ops: CORE_OPS.to_vec(), depth: d_core },
        SearchSpec { name: "UB-limit", ctors: vec![0, 4, 6], ops: LIMIT_OPS.to_vec(), depth: d_limit },
    ];
    let mut cross: Vec<Value> = Vec::new();
    for spec in &specs {
        let t0 = Instant::now();
        let (stats, acc) = search(run, spec, which);
        if stats.completed {
            if let Some(v) = cross_check(which, spec, &stats.layers, acc.viol_total) {
                cross.push(v);
            }
        }
        run.absorb(acc);
        run.report(UniverseReport {
            name: spec.name.to_string(),
            bound: json!({
                "mode": "explicit-state BFS over real Builder objects, states deduplicated by Debug rendering + model state",
                "depth": spec.depth,
                "constructors": spec.ctors.iter().map(|c| ctors()[*c as usize].name).collect::<Vec<_>>(),
                "operations": spec.ops.iter().map(|o| ops()[*o as usize].name).collect::<Vec<_>>(),
                "new_states_per_layer": stats.layers,
                "terminal_states": stats.terminal,
            }),
            states: stats.states,
            transitions: stats.transitions,
            evals: 0,
            wall_s: t0.elapsed().as_secs_f64(),
            completed: stats.completed,
        });
    }
    run.extra("cross_check_with_stateright", if cross.is_empty() { json!("not run (PPP_XCHECK_BIN not set)") } else { json!(cross) });
}

/// Hand the same transition function to stateright's BFS checker (the `xcheck` crate) and compare its
/// unique-state count and verdict with ours.  A disagreement between the two explorers is a machinery
/// error, never a verdict.
fn cross_check(which: Which, spec: &SearchSpec, layers: &[u64], our_violations: u64) -> Option<Value> {
    let bin = std::env::var("PPP_XCHECK_BIN").ok().filter(|b| !b.is_empty())?;
    let name = match spec.name {
        "UB-core" => "core",
        "UB-boundary" => "boundary",
        "UB-limit" => "limit",
        _ => "main",
    };
    if (name == "main" && spec.depth > 4) || (name == "core" && spec.depth > 8) {
        return None; // the single-threaded second explorer is only run where it takes seconds
    }
    // UB-limit (20 operations on 64 KiB buffers) takes the single-threaded explorer a minute at depth 4: it is
    // cross-checked through depth 3, against the sum of the BFS's layers 0..=3 (the layers are per-depth counts of
    // new states, so a prefix sum is exactly the unique-state count of the shallower search)
    let xdepth = if name == "limit" { spec.depth.min(3) } else { spec.depth };
    if xdepth < spec.depth && our_violations > 0 {
        return None; // the verdicts of searches of different depth are not comparable
    }
    let our_unique: u64 = layers.iter().take(xdepth + 1).sum();
    let out = std::process::Command::new(&bin)
        .arg(if which == Which::C09 { "C09" } else { "C10" })
        .arg(name)
        .arg(xdepth.to_string())
        .output();
    let out = match out {
        Ok(o) if o.status.success() => o,
        other => {
            println!("MACHINERY-ERROR: cross-check explorer {} did not run: {:?}", bin, other.map(|o| o.status));
            std::process::exit(2);
        }
    };
    let text = String::from_utf8_lossy(&out.stdout);
    let v: Value = match text.lines().last().and_then(|l| serde_json::from_str(l).ok()) {
        Some(v) => v,
        None => {
            println!("MACHINERY-ERROR: cross-check explorer printed no JSON: {}", text);
            std::process::exit(2);
        }
    };
    let their_unique = v["unique_states"].as_u64().unwrap_or(0);
    let their_discoveries = v["discoveries"].as_array().map(|a| a.len()).unwrap_or(0);
    // stateright stops at the first discovery, so state counts are only comparable when nothing is violated
    let counts_differ = our_violations == 0 && their_unique != our_unique;
    if counts_differ || (their_discoveries > 0) != (our_violations > 0) {
        println!(
            "MACHINERY-ERROR: explorers disagree on {} depth {}: harness BFS {} unique states / {} violations, stateright {} unique states / {} discoveries",
            spec.name, xdepth, our_unique, our_violations, their_unique, their_discoveries
        );
        std::process::exit(2);
    }
    Some(json!({"spec": spec.name, "depth": xdepth, "harness_unique_states": our_unique, "harness_violations": our_violations, "stateright": v,
        "agree": true, "compared": if our_violations == 0 { "unique-state count and verdict" } else { "verdict only (stateright stops at its first discovery)" }}))
}
