//! C18 — v1 verdict is final once the first line break or 107 bytes have been seen.

use super::common::*;
use crate::engine::*;
use crate::oracle::v1 as o1;
use ppp::{HeaderResult, PartialResult};

pub fn def() -> PropDef {
    PropDef {
        id: "C18",
        title: "v1 verdict is final once the first line break or 107 bytes have been seen",
        judge,
        run,
        shrink: Shrink::Bytes,
        render: render_seq_or_bytes,
        rule: "every input of the v1 slot / byte / length / UTF-8 universes that satisfies the precondition (first CR followed by at least one byte, or >= 107 CR-free bytes) is parsed through try_from(&[u8]), try_from(&str) (valid UTF-8 only) and HeaderResult::parse (only when the v2 parser's own verdict is terminal, so that the text parser answers); the result must be complete, and the same success (or an error again) on the same input followed by more bytes (x, CRLF, 0x80, a cut 3-byte character; for text x, CRLF, a 3-byte character); non-trivial = precondition holds; distinct = hash of the input",
        assumptions: &["which terminal error is reported is property C12's business, not checked here"],
    }
}

pub fn judge(case: &[u8], acc: &mut Acc) {
    match decode_seq(case) {
        Some(parts) => {
            history_differential(&parts, acc, &parse_entries());
            judge_history_case(&parts, acc, warm_all, judge_plain)
        }
        None => judge_plain(case, acc),
    }
}

pub fn judge_plain(input: &[u8], acc: &mut Acc) {
    if !o1::must_be_complete(input) {
        acc.class("window-still-open", "-");
        return;
    }
    acc.nontrivial();
    let r = v1_bytes(input);
    acc.eval(1);
    acc.validated(1);
    let oc = if o1::first_cr(input).is_some() { "closed-by-CR+1" } else { "closed-by-107-bytes" };
    acc.class(oc, v1b_name(&r));
    match &r {
        Ok(x) => {
            if !x.is_complete() || x.is_incomplete() {
                acc.violation(&format!("incomplete-after-window-closed:{}", v1b_name(&r)), "v1::Header::try_from(&[u8])", "a complete result (success or terminal error)".into(), format!("{:?}", x.as_ref().map(|h| h.header.len())));
            }
        }
        Err(_) => {} // a panic is C03's business
    }
    // "... because no later byte can change it": the verdict on the closed window is also the verdict on the window
    // followed by more data, text or not
    if let Ok(first) = &r {
        let mut buf = Vec::with_capacity(input.len() + 4);
        for t in [&b"x"[..], &b"\r\n"[..], &[0x80u8][..], &[0xe2u8, 0x82][..]] {
            buf.clear();
            buf.extend_from_slice(input);
            buf.extend_from_slice(t);
            let again = v1_bytes(&buf);
            acc.eval(1);
            let same = match (first, &again) {
                (Ok(a), Ok(Ok(b))) => a == b,
                // which terminal error names an over-long line that also holds a non-text byte may depend on whether a CR
                // has arrived (HeaderTooLong / InvalidUtf8): the property fixes success-vs-error and the header, not that
                (Err(_), Ok(Err(_))) => true,
                (_, Err(_)) => true, // a panic is C03's business
                _ => false,
            };
            if !same {
                acc.violation_on("later-bytes-change-the-verdict", "v1::Header::try_from(&[u8])", buf.clone(), format!("{:?}", first.as_ref().map(|h| h.header.len())), format!("{:?}", again.as_ref().map(|x| x.as_ref().map(|h| h.header.len()))));
                break;
            }
        }
    }
    if let Ok(s) = std::str::from_utf8(input) {
        let r = v1_str(s);
        acc.eval(1);
        acc.validated(1);
        if let Ok(x) = &r {
            if !x.is_complete() || x.is_incomplete() {
                acc.violation(&format!("incomplete-after-window-closed:{}", v1s_name(&r)), "v1::Header::try_from(&str)", "a complete result (success or terminal error)".into(), format!("{:?}", x.as_ref().map(|h| h.header.len())));
            }
            let mut buf = String::with_capacity(s.len() + 4);
            for t in ["x", "\r\n", "\u{20ac}"] {
                buf.clear();
                buf.push_str(s);
                buf.push_str(t);
                let again = v1_str(&buf);
                acc.eval(1);
                let same = match (x, &again) {
                    (Ok(a), Ok(Ok(b))) => a == b,
                    (Err(_), Ok(Err(_))) => true,
                    (_, Err(_)) => true,
                    _ => false,
                };
                if !same {
                    acc.violation_on("later-bytes-change-the-verdict", "v1::Header::try_from(&str)", buf.as_bytes().to_vec(), format!("{:?}", x.as_ref().map(|h| h.header.len())), format!("{:?}", again.as_ref().map(|y| y.as_ref().map(|h| h.header.len()))));
                    break;
                }
            }
        }
    }
    // auto-detection: only when the v2 parser itself gives a terminal verdict does the text parser answer
    let v2r = v2_parse(input);
    acc.eval(1);
    if let Ok(Err(e)) = &v2r {
        if !e.is_incomplete() {
            let a = guard(|| HeaderResult::parse(input));
            acc.eval(1);
            acc.validated(1);
            if let Ok(a) = &a {
                if !a.is_complete() || a.is_incomplete() {
                    acc.violation("incomplete-after-window-closed:auto", "HeaderResult::parse", "a complete result".into(), format!("{:?}", a));
                }
            }
        }
    }
}

pub fn run(run: &Run) {
    let b = v1_bounds(run.tier);
    explore_all(run, &v1_universes(&b));
    explore_all(run, &seq_universes(run.tier, true, false));
}
