//! C18 — v1 verdict is final once the first line break or 107 bytes have been seen.

use super::common::*;
use crate::engine::*;
use crate::oracle::v1 as o1;
use ppp::{HeaderResult, PartialResult};

pub fn def() -> PropDef {
    PropDef {
        id: "C18",
        title: "v1 verdict is final once the first line break or 107 bytes have been seen",
        judge,
        run,
        shrink: Shrink::Bytes,
        render: render_seq_or_bytes,
        rule: "every input of the v1 slot / byte / length / UTF-8 universes that satisfies the precondition (first CR followed by at least one byte, or >= 107 CR-free bytes) is parsed through try_from(&[u8]), try_from(&str) (valid UTF-8 only) and HeaderResult::parse (only when the v2 parser's own verdict is terminal, so that the text parser answers); the result must be complete; non-trivial = precondition holds; distinct = hash of the input",
        assumptions: &["which terminal error is reported is property C12's business, not checked here"],
    }
}

pub fn judge(case: &[u8], acc: &mut Acc) {
    match decode_seq(case) {
        Some(parts) => {
            history_differential(&parts, acc, &parse_entries());
            judge_history_case(&parts, acc, warm_all, judge_plain)
        }
        None => judge_plain(case, acc),
    }
}

pub fn judge_plain(input: &[u8], acc: &mut Acc) {
    if !o1::must_be_complete(input) {
        acc.class("window-still-open", "-");
        return;
    }
    acc.nontrivial();
    let r = v1_bytes(input);
    acc.eval(1);
    acc.validated(1);
    let oc = if o1::first_cr(input).is_some() { "closed-by-CR+1" } else { "closed-by-107-bytes" };
    acc.class(oc, v1b_name(&r));
    match &r {
        Ok(x) => {
            if !x.is_complete() || x.is_incomplete() {
                acc.violation(&format!("incomplete-after-window-closed:{}", v1b_name(&r)), "v1::Header::try_from(&[u8])", "a complete result (success or terminal error)".into(), format!("{:?}", x.as_ref().map(|h| h.header.len())));
            }
        }
        Err(_) => {} // a panic is C03's business
    }
    if let Ok(s) = std::str::from_utf8(input) {
        let r = v1_str(s);
        acc.eval(1);
        acc.validated(1);
        if let Ok(x) = &r {
            if !x.is_complete() || x.is_incomplete() {
                acc.violation(&format!("incomplete-after-window-closed:{}", v1s_name(&r)), "v1::Header::try_from(&str)", "a complete result (success or terminal error)".into(), format!("{:?}", x.as_ref().map(|h| h.header.len())));
            }
        }
    }
    // auto-detection: only when the v2 parser itself gives a terminal verdict does the text parser answer
    let v2r = v2_parse(input);
    acc.eval(1);
    if let Ok(Err(e)) = &v2r {
        if !e.is_incomplete() {
            let a = guard(|| HeaderResult::parse(input));
            acc.eval(1);
            acc.validated(1);
            if let Ok(a) = &a {
                if !a.is_complete() || a.is_incomplete() {
                    acc.violation("incomplete-after-window-closed:auto", "HeaderResult::parse", "a complete result".into(), format!("{:?}", a));
                }
            }
        }
    }
}

pub fn run(run: &Run) {
    let b = v1_bounds(run.tier);
    explore_all(run, &v1_universes(&b));
    explore_all(run, &seq_universes(run.tier, true, false));
}
