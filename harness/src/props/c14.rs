//! C14 — v2 header views partition the header consistently.

use super::c02::{addresses_match, family_code, family_enum_code, v2_key};
use super::common::*;
use crate::engine::*;
use crate::oracle::v2 as o2;
use crate::universe::v2 as u2;
use ppp::v2;

pub fn def() -> PropDef {
    PropDef {
        id: "C14",
        title: "v2 header views partition the header consistently",
        judge,
        run,
        shrink: Shrink::Bytes,
        render: render_seq_or_bytes,
        rule: "every header the real parser accepts in U2-ctl, U2-len (every length, exact and with 7 trailing bytes), U2-addr, U2-sig, U2-byte and the embedded TLV sections; the identities are evaluated on the borrowed header and on its owned copy; non-trivial = accepted; distinct = hash of (control bytes, length, bytes present, first 64 payload bytes)",
        assumptions: &["helper methods the statement does not mention (is_empty, Addresses::len/is_empty, u16::from(AddressFamily)) are evaluated; only a panic there is reported (by C03), a surprising value is an advisory note"],
    }
}

fn check(acc: &mut Acc, which: &str, input: &[u8], h: &v2::Header) {
    let entry = which;
    let declared = o2::be16(&input[14..16]) as usize;
    let fam_wire = input[13] >> 4;
    let ab = h.address_bytes();
    let tb = h.tlv_bytes();
    let raw = h.as_bytes();
    acc.eval(6);
    // concatenation = payload after the fixed part
    if raw.len() < 16 || ab.len() + tb.len() != raw.len() - 16 || ab != &raw[16..16 + ab.len()] || tb != &raw[16 + ab.len()..] {
        acc.violation("views-do-not-partition-payload", entry, format!("address_bytes ++ tlv_bytes == payload ({} bytes)", raw.len().saturating_sub(16)), format!("address_bytes={} bytes, tlv_bytes={} bytes", ab.len(), tb.len()));
        return;
    }
    let size = if fam_wire == 0 { declared } else { o2::FAMILY_SIZE[(fam_wire & 3) as usize] };
    if ab.len() != size {
        acc.violation("address-view-size", entry, format!("{} bytes for family {}", size, fam_wire), format!("{} bytes", ab.len()));
    }
    if h.length() + 16 != h.len() || h.len() != raw.len() || h.length() != declared {
        acc.violation(
            "length-accessors-disagree",
            entry,
            format!("length()={} len()={} as_bytes().len()={}", declared, declared + 16, declared + 16),
            format!("length()={} len()={} as_bytes().len()={}", h.length(), h.len(), raw.len()),
        );
    }
    let fam_rep = family_enum_code(h.address_family());
    if fam_rep != fam_wire || fam_rep != family_code(&h.addresses) {
        acc.violation(
            "family-disagrees",
            entry,
            format!("family nibble {}", fam_wire),
            format!("address_family()={:?} addresses variant code={}", h.address_family(), family_code(&h.addresses)),
        );
    }
    if fam_wire <= 3 && ab.len() >= o2::FAMILY_SIZE[fam_wire as usize] && !addresses_match(&h.addresses, fam_wire, ab) {
        acc.violation("decoded-fields-not-be-decoding-of-view", entry, format!("big-endian decoding of {}", hex(ab)), format!("{:?}", h.addresses));
    }
    // tlvs() iterates the same bytes as tlv_bytes()
    if h.tlvs().as_bytes() != tb {
        acc.violation("tlvs-view-differs", entry, format!("{} bytes", tb.len()), format!("{} bytes", h.tlvs().as_bytes().len()));
    }
    // advisory only
    let _ = guard(|| (h.is_empty(), h.addresses.len(), h.addresses.is_empty(), u16::from(h.address_family())));
    if h.is_empty() {
        acc.note("advisory: Header::is_empty() true on an accepted header", 1);
    }
    if h.addresses.len() != o2::FAMILY_SIZE[(fam_wire & 3) as usize] {
        acc.note("advisory: Addresses::len() differs from the family size", 1);
    }
}

pub fn judge(case: &[u8], acc: &mut Acc) {
    match decode_seq(case) {
        Some(parts) => {
            history_differential(&parts, acc, &parse_entries());
            judge_history_case(&parts, acc, warm_all, judge_plain)
        }
        None => judge_plain(case, acc),
    }
}

pub fn judge_plain(input: &[u8], acc: &mut Acc) {
    let r = v2_parse(input);
    acc.eval(1);
    let h = match &r {
        Ok(Ok(h)) => h,
        _ => {
            acc.class("not-accepted", v2_name(&r));
            return;
        }
    };
    acc.class("accepted", v2_name(&r));
    acc.nontrivial_key(v2_key(input));
    acc.validated(1);
    let big = !(input.len() <= 2048 || u2::near_boundary(input.len().saturating_sub(16)) || OWNED_EVERYWHERE.load(std::sync::atomic::Ordering::Relaxed));
    let res = guard(|| {
        check(acc, "borrowed header", input, h);
        if !big {
            let o = h.to_owned();
            check(acc, "owned copy", input, &o);
        }
    });
    if let Err(p) = res {
        acc.violation("view-panicked", "accessors", "normal return".into(), p);
    }
}

static OWNED_EVERYWHERE: std::sync::atomic::AtomicBool = std::sync::atomic::AtomicBool::new(false);

pub fn run(run: &Run) {
    OWNED_EVERYWHERE.store(true, std::sync::atomic::Ordering::Relaxed);
    run.explore(&u2::CtlUniverse);
    run.explore(&u2::LenUniverse { presents: u2::Presents::AcceptedStride(1), name: "U2-len/accepted" });
    run.explore(&u2::sig_universe());
    run.explore(&u2::addr_universe());
    run.explore(&u2::anybyte_universe());
    run.explore(&u2::byte_universe(run.tier.pick(3, 5)));
    run.explore(&super::c11::EmbeddedTlv { n: run.tier.pick(6, 8) });
    run.explore(&super::c11::EmbeddedText { n: run.tier.pick(6, 8) });
    run.explore(&super::c11::EmbeddedStructured::new(false));
    run.explore(&super::c11::NearMaxStructured { span: run.tier.pick(35, 135) });
    explore_all(run, &seq_universes(run.tier, false, true));
}
