//! C10 — builder output is the in-order concatenation of what was written, nothing else.

use super::builder_mc::{self as mc, Which};
use crate::engine::*;

pub fn def() -> PropDef {
    PropDef {
        id: "C10",
        title: "Builder output is the in-order concatenation of what was written, nothing else",
        judge,
        run,
        shrink: Shrink::Ops,
        render: mc::render,
        rule: "the same explicit-state BFS as C09 (every call history up to depth D over the main, boundary and core alphabets from 7 constructors); in every state build() on a replayed copy must equal signature ++ control bytes ++ length ++ construction-time address block ++ encodings in call order (length bytes masked: they are C09's), with the family nibble taken from the address value for with_addresses; reserve_capacity and batching are no-ops of the model, so histories that differ only in them must agree; non-trivial = history contains at least one write; distinct = hash of the history",
        assumptions: &["encodings come from the independent reference encoder (oracle::enc)", "usize / isize payloads are 8 bytes (64-bit target)"],
    }
}

pub fn judge(case: &[u8], acc: &mut Acc) {
    mc::judge_history(case, acc, Which::C10);
}

pub fn run(run: &Run) {
    mc::run_searches(run, Which::C10);
}
