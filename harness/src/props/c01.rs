//! C01 — v1 parser accepts exactly the well-formed lines and decodes them faithfully.

use super::common::*;
use crate::engine::*;
use crate::oracle::v1 as o1;
use ppp::v1;

pub fn def() -> PropDef {
    PropDef {
        id: "C01",
        title: "v1 parser accepts exactly the well-formed lines and decodes them faithfully",
        judge,
        run,
        shrink: Shrink::Bytes,
        render: render_seq_or_bytes,
        rule: "every input of the slot trees (<= k deviations from 3 baseline lines), byte trees (every string over a 16-byte alphabet up to depth d after every stem) and length / UTF-8 lists is parsed by v1::Header::try_from(&[u8]) (and try_from(&str) when valid UTF-8) and compared with the reference grammar; non-trivial = the input starts with `PROXY `; distinct = distinct 64-bit hash of the input (collection capped at 2^25)",
        assumptions: &[
            "the reference grammar (oracle::v1, oracle::ip) is the reading of property C01: first CR must be followed by LF, line <= 107 bytes, single-space separated fields, RFC 4291 IPv6 text with `::` standing for >= 1 group, ports `0|[1-9][0-9]{0,4}` <= 65535",
            "address values outside the token menus are covered by structure (see DESIGN.md section 9), not enumerated",
        ],
    }
}

fn addr_matches(a: &o1::Accept, h: &v1::Header) -> Result<(), String> {
    match (a.proto, &h.addresses) {
        (o1::Proto::Unknown, v1::Addresses::Unknown) => Ok(()),
        (o1::Proto::Tcp4, v1::Addresses::Tcp4(x)) => {
            if x.source_address.octets() != a.src[..4] || x.destination_address.octets() != a.dst[..4] || x.source_port != a.sport || x.destination_port != a.dport {
                Err(format!("{:?}", h.addresses))
            } else {
                Ok(())
            }
        }
        (o1::Proto::Tcp6, v1::Addresses::Tcp6(x)) => {
            if x.source_address.octets() != a.src || x.destination_address.octets() != a.dst || x.source_port != a.sport || x.destination_port != a.dport {
                Err(format!("{:?}", h.addresses))
            } else {
                Ok(())
            }
        }
        _ => Err(format!("{:?}", h.addresses)),
    }
}

fn compare(acc: &mut Acc, entry: &str, input: &[u8], o: &o1::Verdict, got: Result<Result<&v1::Header, &'static str>, &String>) {
    match (o, got) {
        (o1::Verdict::Accept(a), Ok(Ok(h))) => {
            if let Err(actual) = addr_matches(a, h) {
                acc.violation("decoded-values-differ", entry, format!("{:?}", a), actual);
            }
            if h.header.as_bytes() != &input[..a.line_len] {
                acc.violation(
                    "header-text-differs",
                    entry,
                    escape(&input[..a.line_len]),
                    escape(h.header.as_bytes()),
                );
            }
        }
        (o1::Verdict::Accept(a), Ok(Err(name))) => {
            acc.violation(&format!("rejected-wellformed:{}", name), entry, format!("Ok {:?}", a), format!("Err({})", name));
        }
        (o1::Verdict::Accept(a), Err(p)) => {
            acc.violation("rejected-wellformed:PANIC", entry, format!("Ok {:?}", a), format!("panic: {}", p));
        }
        (o1::Verdict::Reject(why), Ok(Ok(h))) => {
            acc.violation(&format!("accepted-malformed:{}", why), entry, format!("Err (reference: {})", why), format!("Ok({:?}, header={:?})", h.addresses, h.header));
        }
        (o1::Verdict::Reject(_), _) => {}
    }
}

pub fn judge(case: &[u8], acc: &mut Acc) {
    match decode_seq(case) {
        Some(parts) => {
            history_differential(&parts, acc, &parse_entries());
            judge_history_case(&parts, acc, warm_all, judge_plain)
        }
        None => judge_plain(case, acc),
    }
}

pub fn judge_plain(input: &[u8], acc: &mut Acc) {
    let o = o1::verdict(input);
    let r = v1_bytes(input);
    acc.eval(1);
    acc.validated(1);
    let oc = match &o {
        o1::Verdict::Accept(a) => match a.proto {
            o1::Proto::Tcp4 => "accept-tcp4",
            o1::Proto::Tcp6 => "accept-tcp6",
            o1::Proto::Unknown => "accept-unknown",
        },
        o1::Verdict::Reject(w) => w,
    };
    acc.class(oc, v1b_name(&r));
    if starts_with_keyword(input) {
        acc.nontrivial();
    }
    let got = match &r {
        Err(p) => Err(p),
        Ok(Ok(h)) => Ok(Ok(h)),
        Ok(Err(e)) => Ok(Err(v1b_err_name(e))),
    };
    compare(acc, "v1::Header::try_from(&[u8])", input, &o, got);
    if let Ok(s) = std::str::from_utf8(input) {
        let r = v1_str(s);
        acc.eval(1);
        acc.validated(1);
        let got = match &r {
            Err(p) => Err(p),
            Ok(Ok(h)) => Ok(Ok(h)),
            Ok(Err(e)) => Ok(Err(v1_err_name(e))),
        };
        compare(acc, "v1::Header::try_from(&str)", input, &o, got);
        // the FromStr entry points are v1 text entry points too
        if input.len() <= 256 {
            let rh = guard(|| s.parse::<v1::Header<'static>>());
            acc.eval(1);
            acc.validated(1);
            let got = match &rh {
                Err(p) => Err(p),
                Ok(Ok(h)) => Ok(Ok(h)),
                Ok(Err(e)) => Ok(Err(v1_err_name(e))),
            };
            compare(acc, "str::parse::<v1::Header>()", input, &o, got);
        }
    }
}

pub fn run(run: &Run) {
    let b = v1_bounds(run.tier);
    explore_all(run, &v1_universes(&b));
    explore_all(run, &seq_universes(run.tier, true, false));
}
