//! C02 — v2 parser accepts exactly the well-formed headers and decodes them faithfully.

use super::common::*;
use crate::engine::*;
use crate::oracle::v2 as o2;
use ppp::v2;

pub fn def() -> PropDef {
    PropDef {
        id: "C02",
        title: "v2 parser accepts exactly the well-formed headers and decodes them faithfully",
        judge,
        run,
        shrink: Shrink::Bytes,
        render: render_seq_or_bytes,
        rule: "every input of U2-ctl (all 65536 control-byte pairs), U2-len (24 valid pairs x all 65536 lengths x presence boundaries), U2-sig, U2-addr, U2-byte is parsed by v2::Header::try_from and compared with the table-driven reference; non-trivial = signature matches and >= 16 bytes present; distinct = hash of (control bytes, length field, bytes present, first 64 payload bytes)",
        assumptions: &[
            "payload bytes beyond the address block do not influence acceptance (the reference ignores them; U2-byte and the TLV universes vary them)",
            "address values are covered by single-position and all-distinct patterns, not by value enumeration",
        ],
    }
}

pub fn v2_key(input: &[u8]) -> u64 {
    let head = &input[..input.len().min(80)];
    mix64(hash64(head) ^ (input.len() as u64).wrapping_mul(0x9e3779b97f4a7c15))
}

fn command_code(c: v2::Command) -> u8 {
    match c {
        v2::Command::Local => 0,
        v2::Command::Proxy => 1,
        #[allow(unreachable_patterns)]
        _ => 255,
    }
}

fn transport_code(p: v2::Protocol) -> u8 {
    match p {
        v2::Protocol::Unspecified => 0,
        v2::Protocol::Stream => 1,
        v2::Protocol::Datagram => 2,
        #[allow(unreachable_patterns)]
        _ => 255,
    }
}

pub fn family_code(a: &v2::Addresses) -> u8 {
    match a {
        v2::Addresses::Unspecified => 0,
        v2::Addresses::IPv4(_) => 1,
        v2::Addresses::IPv6(_) => 2,
        v2::Addresses::Unix(_) => 3,
        #[allow(unreachable_patterns)]
        _ => 255,
    }
}

pub fn family_enum_code(f: v2::AddressFamily) -> u8 {
    match f {
        v2::AddressFamily::Unspecified => 0,
        v2::AddressFamily::IPv4 => 1,
        v2::AddressFamily::IPv6 => 2,
        v2::AddressFamily::Unix => 3,
        #[allow(unreachable_patterns)]
        _ => 255,
    }
}

/// Does the decoded address value equal the reference big-endian decoding of `block`?
pub fn addresses_match(a: &v2::Addresses, family: u8, block: &[u8]) -> bool {
    match (a, family) {
        (v2::Addresses::Unspecified, 0) => true,
        (v2::Addresses::IPv4(x), 1) => {
            x.source_address.octets() == block[0..4]
                && x.destination_address.octets() == block[4..8]
                && x.source_port == o2::be16(&block[8..10])
                && x.destination_port == o2::be16(&block[10..12])
        }
        (v2::Addresses::IPv6(x), 2) => {
            x.source_address.octets() == block[0..16]
                && x.destination_address.octets() == block[16..32]
                && x.source_port == o2::be16(&block[32..34])
                && x.destination_port == o2::be16(&block[34..36])
        }
        (v2::Addresses::Unix(x), 3) => x.source[..] == block[0..108] && x.destination[..] == block[108..216],
        _ => false,
    }
}

pub fn same_bytes(a: &[u8], b: &[u8]) -> bool {
    (a.as_ptr() == b.as_ptr() && a.len() == b.len()) || a == b
}

pub fn judge(case: &[u8], acc: &mut Acc) {
    match decode_seq(case) {
        Some(parts) => {
            history_differential(&parts, acc, &parse_entries());
            judge_history_case(&parts, acc, warm_all, judge_plain)
        }
        None => judge_plain(case, acc),
    }
}

pub fn judge_plain(input: &[u8], acc: &mut Acc) {
    let o = o2::verdict(input);
    let r = v2_parse(input);
    acc.eval(1);
    acc.validated(1);
    acc.class(o.name(), v2_name(&r));
    if input.len() >= 16 && input[..12] == o2::SIG {
        acc.nontrivial_key(v2_key(input));
    }
    let entry = "v2::Header::try_from(&[u8])";
    match (&o, &r) {
        (o2::Verdict::Accept(a), Ok(Ok(h))) => {
            let size = o2::FAMILY_SIZE[a.family as usize];
            let block = &input[16..16 + size];
            if command_code(h.command) != a.command || transport_code(h.protocol) != a.transport || h.version != v2::Version::Two {
                acc.violation(
                    "decoded-control-differs",
                    entry,
                    format!("command={} transport={}", a.command, a.transport),
                    format!("{:?} {:?} {:?}", h.version, h.command, h.protocol),
                );
            }
            if !addresses_match(&h.addresses, a.family, block) {
                acc.violation("decoded-addresses-differ", entry, format!("family {} block {}", a.family, hex(block)), format!("{:?}", h.addresses));
            }
            if !same_bytes(h.header.as_ref(), &input[..16 + a.length]) {
                acc.violation(
                    "header-bytes-differ",
                    entry,
                    format!("first {} bytes of the input", 16 + a.length),
                    format!("{} bytes: {}", h.header.len(), escape(h.header.as_ref())),
                );
            }
        }
        (o2::Verdict::Accept(a), Ok(Err(e))) => {
            acc.violation(&format!("rejected-wellformed:{}", v2_err_name(e)), entry, format!("Ok {:?}", a), format!("{:?}", e));
        }
        (o2::Verdict::Accept(a), Err(p)) => {
            acc.violation("rejected-wellformed:PANIC", entry, format!("Ok {:?}", a), format!("panic: {}", p));
        }
        (other, Ok(Ok(h))) => {
            acc.violation(
                &format!("accepted-malformed:{}", other.name()),
                entry,
                format!("Err (reference: {:?})", other),
                format!("Ok({:?} {:?} {:?}, {} bytes)", h.command, h.protocol, h.addresses, h.header.len()),
            );
        }
        _ => {}
    }
}

pub fn run(run: &Run) {
    explore_all(run, &v2_universes(run.tier));
    explore_all(run, &seq_universes(run.tier, false, true));
    // headers whose payload after the address block is structured (every TLV type byte, lengths, fills; nested SSL; long runs)
    run.explore(&super::c11::EmbeddedStructured::new(false));
    run.explore(&super::c11::NearMaxStructured { span: run.tier.pick(35, 135) });
    run.explore(&super::c11::EmbeddedTlv { n: run.tier.pick(6, 8) });
    run.explore(&super::c11::EmbeddedText { n: run.tier.pick(6, 8) });
}
