//! C06 — version auto-detection agrees with the two dedicated parsers.

use super::common::*;
use crate::engine::*;
use crate::oracle::v2::SIG;
use crate::universe::{v1 as u1, v2 as u2, ByteUniverse, ListUniverse};
use ppp::{HeaderResult, PartialResult};

pub fn def() -> PropDef {
    PropDef {
        id: "C06",
        title: "Version auto-detection agrees with the two dedicated parsers",
        judge,
        run,
        shrink: Shrink::Bytes,
        render: render_seq_or_bytes,
        rule: "every input of UX (all strings over {CR,LF,NUL,Q,U,I,T,P,SP,0x21,0x11} up to length 6/7; every signature prefix followed by every v1 baseline prefix; v1 baselines followed by v2 baselines and vice versa), the v1 slot / byte universes and U2-ctl / U2-sig / U2-byte / U2-len goes through HeaderResult::parse, v2::Header::try_from and v1::Header::try_from; the auto result must be the documented combination; non-trivial = input is non-empty and starts with a signature prefix or `P`; distinct = hash of the input",
        assumptions: &["this property is relative to the dedicated parsers by its own statement; their absolute correctness is C01 / C02"],
    }
}

pub const SIGMA_X: &[u8] = &[b'\r', b'\n', 0x00, b'Q', b'U', b'I', b'T', b'P', b' ', 0x21, 0x11];

pub fn ux_bytes(d: usize) -> ByteUniverse {
    ByteUniverse { name: "UX-byte".into(), stems: vec![vec![]], sigma: SIGMA_X.to_vec(), d, split: 2 }
}

pub fn ux_mixed() -> ListUniverse {
    let mut cases: Vec<Vec<u8>> = Vec::new();
    let v1b = u1::baselines();
    let v2b = u2::baseline_headers();
    // every signature prefix (0..=12) followed by every prefix of every v1 baseline
    for n in 0..=12 {
        for l in &v1b {
            for m in 0..=l.len() {
                cases.push([&SIG[..n], &l[..m]].concat());
            }
        }
    }
    // v1 baseline (prefix) followed by a v2 header (prefix) and vice versa
    for l in &v1b {
        for h in &v2b {
            for m in [0, 1, 5, 6, l.len() - 2, l.len() - 1, l.len()] {
                for n in [0, 1, 11, 12, 13, 15, 16, h.len() - 1, h.len()] {
                    cases.push([&l[..m], &h[..n]].concat());
                    cases.push([&h[..n], &l[..m]].concat());
                }
            }
        }
    }
    // v2 headers with every control byte pair whose payload is a v1 line
    for vc in [0x20u8, 0x21, 0x22, 0x11, 0x00] {
        for afp in [0x00u8, 0x11, 0x21, 0x31, 0x41, 0x13] {
            for l in &v1b {
                let mut c = SIG.to_vec();
                c.push(vc);
                c.push(afp);
                c.push(0);
                c.push(l.len() as u8);
                c.extend_from_slice(l);
                cases.push(c);
            }
        }
    }
    cases.sort();
    cases.dedup();
    ListUniverse { name: "UX-mixed".into(), what: "signature prefixes x v1 baseline prefixes; v1 lines followed by v2 headers and vice versa; v2 headers carrying v1 lines".into(), cases }
}

pub fn judge(case: &[u8], acc: &mut Acc) {
    match decode_seq(case) {
        Some(parts) => {
            history_differential(&parts, acc, &parse_entries());
            judge_history_case(&parts, acc, warm_all, judge_plain)
        }
        None => judge_plain(case, acc),
    }
}

pub fn judge_plain(input: &[u8], acc: &mut Acc) {
    let r2 = v2_parse(input);
    let r1 = v1_bytes(input);
    let ra = guard(|| HeaderResult::parse(input));
    acc.eval(3);
    acc.validated(1);
    if !input.is_empty() && (input[0] == b'P' || input[0] == b'\r') {
        acc.nontrivial();
    }
    let (r2, r1, ra) = match (r2, r1, ra) {
        (Ok(a), Ok(b), Ok(c)) => (a, b, c),
        _ => {
            acc.class("panic", "-");
            return; // C03's business
        }
    };
    let entry = "HeaderResult::parse";
    if r2.is_ok() && r1.is_ok() {
        acc.violation("both-versions-accept", entry, "never both".into(), format!("v2 {:?} / v1 {:?}", r2, r1));
    }
    // completeness according to the dedicated parsers' own results (not through the wrapper under test)
    let inner_incomplete = if r2.is_ok() { false } else if r2.is_incomplete() { true } else { r1.is_incomplete() };
    let (expect, oc): (HeaderResult, &'static str) = if r2.is_ok() {
        (HeaderResult::V2(r2), "v2 accepts")
    } else if r2.is_incomplete() {
        (HeaderResult::V2(r2), "v2 incomplete")
    } else {
        let oc = if r1.is_ok() {
            "v2 terminal, v1 accepts"
        } else if r1.is_incomplete() {
            "v2 terminal, v1 incomplete"
        } else {
            "v2 terminal, v1 terminal"
        };
        (HeaderResult::V1(r1), oc)
    };
    let ic = match &ra {
        HeaderResult::V1(Ok(_)) => "V1(Ok)",
        HeaderResult::V1(Err(e)) => {
            if e.is_incomplete() {
                "V1(Err incomplete)"
            } else {
                "V1(Err terminal)"
            }
        }
        HeaderResult::V2(Ok(_)) => "V2(Ok)",
        HeaderResult::V2(Err(e)) => {
            if e.is_incomplete() {
                "V2(Err incomplete)"
            } else {
                "V2(Err terminal)"
            }
        }
    };
    acc.class(oc, ic);
    // completeness delegation of the wrapper
    let (exp_inc, got_inc) = (inner_incomplete, ra.is_incomplete());
    if ra != expect {
        let kind = match (&ra, &expect) {
            (HeaderResult::V1(_), HeaderResult::V2(_)) => "text-verdict-for-possible-v2",
            (HeaderResult::V2(_), HeaderResult::V1(_)) => "v2-verdict-where-text-parser-should-answer",
            _ => "wrapped-result-differs",
        };
        acc.violation(kind, entry, format!("{} -> {:?}", oc, expect), format!("{:?}", ra));
    } else if exp_inc != got_inc || ra.is_complete() == got_inc {
        acc.violation("completeness-flag-differs", entry, format!("is_incomplete() == {}", exp_inc), format!("is_incomplete() == {}, is_complete() == {}", got_inc, ra.is_complete()));
    }
}

pub fn run(run: &Run) {
    run.explore(&ux_bytes(run.tier.pick(6, 7)));
    run.explore(&ux_mixed());
    let b = v1_bounds(run.tier);
    explore_all(run, &v1_universes(&b));
    explore_all(run, &v2_universes(run.tier));
    explore_all(run, &seq_universes(run.tier, true, true));
    run.explore(&super::c11::EmbeddedStructured::new(false));
    run.explore(&super::c11::NearMaxStructured { span: run.tier.pick(8, 35) });
}
