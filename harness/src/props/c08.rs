//! C08 — v1 formatting produces canonical lines that parse back to the same addresses.

use super::common::*;
use super::values::{render_av, AddrValues, AV};
use crate::engine::*;
use crate::oracle::v1 as o1;
use ppp::v1;
use std::net::{Ipv4Addr, Ipv6Addr};

pub fn def() -> PropDef {
    PropDef {
        id: "C08",
        title: "v1 formatting produces canonical lines that parse back to the same addresses",
        judge: judge_any,
        run,
        shrink: Shrink::None,
        render: render_av,
        rule: "every value of UA (Unknown; IPv4: 6561 octet combinations as source and as destination, 121 port pairs, single-bit and single-byte walks; IPv6: all 256 zero-run masks x every assignment of {1,0xabc,0xffff} as source and as destination, special shapes) is formatted with to_string(); the line must be <= 107 bytes, accepted by the reference grammar with exactly that value, and parsed back to the identical value by try_from(&str), try_from(&[u8]), parse::<Addresses>() and parse::<Header>(); second clause: every header the real parser accepts in the v1 slot universes formats back to its own text; non-trivial = every IPv4 / IPv6 value and every accepted header; distinct = hash of the value encoding / input",
        assumptions: &["injectivity follows from the round trip through the reference decoder (a function of the line)", "2^64 IPv4 x 2^32 port tuples are covered by structure, not enumerated (DESIGN.md section 9)"],
    }
}

fn to_real(v: &AV) -> Option<v1::Addresses> {
    Some(match v {
        AV::None => v1::Addresses::Unknown,
        AV::V4 { src, dst, sport, dport } => v1::Addresses::Tcp4(super::values::make_v4(*src, *dst, *sport, *dport)),
        AV::V6 { src, dst, sport, dport } => v1::Addresses::Tcp6(super::values::make_v6(*src, *dst, *sport, *dport)),
        AV::Unix { .. } => return None,
    })
}

fn oracle_matches(v: &AV, a: &o1::Accept) -> bool {
    match v {
        AV::None => a.proto == o1::Proto::Unknown,
        AV::V4 { src, dst, sport, dport } => a.proto == o1::Proto::Tcp4 && a.src[..4] == src[..] && a.dst[..4] == dst[..] && a.sport == *sport && a.dport == *dport,
        AV::V6 { src, dst, sport, dport } => a.proto == o1::Proto::Tcp6 && a.src == *src && a.dst == *dst && a.sport == *sport && a.dport == *dport,
        AV::Unix { .. } => false,
    }
}

pub fn judge(case: &[u8], acc: &mut Acc) {
    let (v, _) = match AV::decode(case) {
        Some(x) => x,
        None => return,
    };
    let a = match to_real(&v) {
        Some(a) => a,
        None => return,
    };
    let line = match guard(|| a.to_string()) {
        Ok(l) => l,
        Err(p) => {
            acc.violation("format-panicked", "v1::Addresses::to_string", "a line".into(), p);
            return;
        }
    };
    acc.eval(1);
    acc.nontrivial();
    // formatting must not depend on what was formatted before: a sink that fails half-way, then format again
    for limit in [0usize, 7, 25] {
        struct Limited(usize);
        impl std::fmt::Write for Limited {
            fn write_str(&mut self, s: &str) -> std::fmt::Result {
                if s.len() > self.0 {
                    return Err(std::fmt::Error);
                }
                self.0 -= s.len();
                Ok(())
            }
        }
        use std::fmt::Write as _;
        let _ = guard(|| write!(Limited(limit), "{}", a));
        acc.eval(2);
        match guard(|| a.to_string()) {
            Ok(again) if again == line => {}
            other => {
                acc.violation("formatting-depends-on-history", "v1::Addresses Display after a failed write", format!("{:?}", line), format!("{:?}", other));
                break;
            }
        }
    }
    let lb = line.as_bytes();
    if lb.len() > 107 {
        acc.violation("line-too-long", "v1::Addresses::to_string", "<= 107 bytes".into(), format!("{} bytes: {}", lb.len(), escape(lb)));
    }
    // the reference grammar must read exactly this value out of the line
    acc.validated(1);
    match o1::verdict(lb) {
        o1::Verdict::Accept(acc_o) if acc_o.line_len == lb.len() && oracle_matches(&v, &acc_o) => {
            acc.class(match v { AV::None => "unknown", AV::V4 { .. } => "ipv4", _ => "ipv6" }, "canonical line");
        }
        other => {
            acc.class("value", "non-canonical line");
            acc.violation("formatted-line-not-canonical", "v1::Addresses::to_string", format!("a well-formed line carrying {}", v.describe()), format!("{:?} reads as {:?}", escape(lb), other));
        }
    }
    // "distinct values never share a line", also across calls: right before the round trip, every entry point is
    // given the *neighbouring* lines -- this line with its last digit dropped, and with one more digit -- so that a
    // parser which remembers its previous input and matches by prefix answers with the neighbour's value below
    if line.len() > 18 {
        let body = &line[..line.len() - 2];
        for near in [format!("{}\r\n", &body[..body.len() - 1]), format!("{}0\r\n", body), format!("{}\r\nGET /", body)] {
            let _ = guard(|| (v1_str(&near).map(|r| r.is_ok()), v1_bytes(near.as_bytes()).map(|r| r.is_ok()), near.parse::<v1::Addresses>().is_ok(), near.parse::<v1::Header<'static>>().is_ok()));
            let again = guard(|| line.parse::<v1::Addresses>());
            acc.eval(5);
            if !matches!(&again, Ok(Ok(x)) if *x == a) {
                acc.violation("roundtrip-depends-on-history", "str::parse::<v1::Addresses>() after parsing a neighbouring line", format!("{:?}", a), format!("{:?} (after {:?})", again, near));
                break;
            }
        }
    }
    // every text entry point parses it back
    let r1 = v1_str(&line);
    let r2 = v1_bytes(lb);
    let r3 = guard(|| line.parse::<v1::Addresses>());
    let r4 = guard(|| line.parse::<v1::Header<'static>>());
    acc.eval(4);
    acc.validated(4);
    let want = format!("Ok(header == line, addresses == {:?})", a);
    if !matches!(&r1, Ok(Ok(h)) if h.addresses == a && h.header.as_ref() == line) {
        acc.violation("roundtrip-differs", "v1::Header::try_from(&str)", want.clone(), format!("{:?}", r1));
    }
    if !matches!(&r2, Ok(Ok(h)) if h.addresses == a && h.header.as_ref() == line) {
        acc.violation("roundtrip-differs", "v1::Header::try_from(&[u8])", want.clone(), format!("{:?}", r2));
    }
    if !matches!(&r3, Ok(Ok(x)) if *x == a) {
        acc.violation("roundtrip-differs", "str::parse::<v1::Addresses>()", want.clone(), format!("{:?}", r3));
    }
    if !matches!(&r4, Ok(Ok(h)) if h.addresses == a && h.header.as_ref() == line && h.to_string() == line) {
        acc.violation("roundtrip-differs", "str::parse::<v1::Header>()", want, format!("{:?}", r4));
    }
}

/// Second clause: a parsed header formats back to exactly the text it was parsed from -- through every way of
/// parsing a header (bytes, text, `str::parse::<Header>()`) and for the owned copy.
pub fn judge_parsed(input: &[u8], acc: &mut Acc) {
    let r = v1_bytes(input);
    acc.eval(1);
    let cr = input.iter().position(|&b| b == b'\r').map(|c| c + 2).unwrap_or(input.len()).min(input.len());
    let mut check = |acc: &mut Acc, entry: &str, printed: Result<String, String>| match printed {
        Ok(s) => {
            if s.as_bytes() != &input[..cr] {
                acc.violation("parsed-header-prints-differently", entry, format!("{:?}", escape(&input[..cr])), format!("{:?}", s));
            }
        }
        Err(p) => acc.violation("format-panicked", entry, "the header text".into(), p),
    };
    if let Ok(Ok(h)) = &r {
        acc.nontrivial();
        acc.validated(1);
        acc.class("parsed header", v1_ok_name(h));
        check(acc, "v1::Header::try_from(&[u8]) -> to_string", guard(|| h.to_string()));
        check(acc, "v1::Header::try_from(&[u8]) -> to_owned -> to_string", guard(|| h.to_owned().to_string()));
    } else {
        acc.class("not accepted", "-");
    }
    if let Ok(text) = std::str::from_utf8(input) {
        if let Ok(Ok(h)) = v1_str(text) {
            acc.eval(1);
            check(acc, "v1::Header::try_from(&str) -> to_string", guard(|| h.to_string()));
        }
        if let Ok(Ok(h)) = guard(|| text.parse::<v1::Header<'static>>()) {
            acc.eval(1);
            check(acc, "str::parse::<v1::Header>() -> to_string", guard(|| h.to_string()));
        }
    }
}

pub fn judge_any(case: &[u8], acc: &mut Acc) {
    if case.first() == Some(&b'P') {
        judge_parsed(case, acc);
    } else {
        judge(case, acc);
    }
}

pub fn run(run: &Run) {
    run.explore_with(&AddrValues { per_group: true, with_unix: false }, judge);
    let k = run.tier.pick(4, 5);
    run.explore_with(&crate::universe::v1::tcp4_universe(k), judge_parsed);
    run.explore_with(&crate::universe::v1::tcp6_universe(k), judge_parsed);
    run.explore_with(&crate::universe::v1::unknown_universe(6), judge_parsed);
    run.explore_with(&crate::universe::v1::len_universe(), judge_parsed);
}
