//! C19 — constructors and socket-address conversions keep every endpoint in its role.

use super::values::{render_av, AddrValues, AV};
use crate::engine::*;
use ppp::{v1, v2};
use std::net::{Ipv4Addr, Ipv6Addr, SocketAddr, SocketAddrV4, SocketAddrV6};

pub fn def() -> PropDef {
    PropDef {
        id: "C19",
        title: "Constructors and socket-address conversions keep every endpoint in its role",
        judge,
        run,
        shrink: Shrink::None,
        render: render_av,
        rule: "every value of UA (single-bit tuples over all 96 / 288 input bits, every byte value in every byte position, 6561 octet combinations, 121 port pairs, 256 IPv6 zero-run masks, Unix single-position patterns over all 216 positions) goes through IPv4::new, IPv6::new, v1::Addresses::new_tcp4/new_tcp6, Unix::new, the From<IPv4|IPv6|Unix> impls and From<(SocketAddr, SocketAddr)> for v1 and v2 (V4/V4, V6/V6 with flow-info and scope 0 and non-zero, the mixed pairs, and every same-family pair once more right after each of six neighbouring pairs); each field must equal the like-named argument; non-trivial = every value; distinct = hash of the value encoding",
        assumptions: &["a depth-1 exploration: an exhaustive enumeration of a structured value menu against a field-by-field reference"],
    }
}

fn v4_ok(x: &v1::IPv4, src: [u8; 4], dst: [u8; 4], sp: u16, dp: u16) -> bool {
    x.source_address.octets() == src && x.destination_address.octets() == dst && x.source_port == sp && x.destination_port == dp
}

fn v6_ok(x: &v1::IPv6, src: [u8; 16], dst: [u8; 16], sp: u16, dp: u16) -> bool {
    x.source_address.octets() == src && x.destination_address.octets() == dst && x.source_port == sp && x.destination_port == dp
}

pub fn judge(case: &[u8], acc: &mut Acc) {
    let (v, _) = match AV::decode(case) {
        Some(x) => x,
        None => return,
    };
    acc.nontrivial();
    let res = guard(|| check(&v, acc));
    if let Err(p) = res {
        acc.violation("constructor-panicked", "constructors / conversions", "normal return".into(), p);
    }
}

fn check(v: &AV, acc: &mut Acc) {
    let want = v.describe();
    let mut bad = |acc: &mut Acc, what: &str, got: String| {
        acc.violation(&format!("role-mismatch:{}", what), what, want.clone(), got);
    };
    match v {
        AV::None => {
            acc.class("none", "-");
        }
        AV::V4 { src, dst, sport, dport } => {
            let (src, dst, sp, dp) = (*src, *dst, *sport, *dport);
            acc.class("ipv4", "constructed");
            acc.eval(8);
            acc.validated(8);
            let a = v1::IPv4::new(src, dst, sp, dp);
            if !v4_ok(&a, src, dst, sp, dp) {
                bad(acc, "IPv4::new", format!("{:?}", a));
            }
            let b = v2::IPv4::new(Ipv4Addr::from(src), Ipv4Addr::from(dst), sp, dp);
            if !v4_ok(&b, src, dst, sp, dp) {
                bad(acc, "IPv4::new(Ipv4Addr)", format!("{:?}", b));
            }
            match v1::Addresses::new_tcp4(src, dst, sp, dp) {
                v1::Addresses::Tcp4(x) if v4_ok(&x, src, dst, sp, dp) => {}
                other => bad(acc, "v1::Addresses::new_tcp4", format!("{:?}", other)),
            }
            let good = super::values::make_v4(src, dst, sp, dp);
            match v1::Addresses::from(good) {
                v1::Addresses::Tcp4(x) if v4_ok(&x, src, dst, sp, dp) => {}
                other => bad(acc, "v1::Addresses::from(IPv4)", format!("{:?}", other)),
            }
            match v2::Addresses::from(good) {
                v2::Addresses::IPv4(x) if v4_ok(&x, src, dst, sp, dp) => {}
                other => bad(acc, "v2::Addresses::from(IPv4)", format!("{:?}", other)),
            }
            let s = SocketAddr::V4(SocketAddrV4::new(src.into(), sp));
            let d = SocketAddr::V4(SocketAddrV4::new(dst.into(), dp));
            let c1 = v1::Addresses::from((s, d));
            let c2 = v2::Addresses::from((s, d));
            match c1 {
                v1::Addresses::Tcp4(x) if v4_ok(&x, src, dst, sp, dp) => {}
                other => bad(acc, "v1::Addresses::from((SocketAddr, SocketAddr))", format!("{:?}", other)),
            }
            match c2 {
                v2::Addresses::IPv4(x) if v4_ok(&x, src, dst, sp, dp) => {}
                other => bad(acc, "v2::Addresses::from((SocketAddr, SocketAddr))", format!("{:?}", other)),
            }
            // a conversion may not depend on the pair converted just before it (neighbouring pairs first, as for IPv6)
            {
                let flip4 = |a: [u8; 4]| [a[0], a[1], a[2], a[3] ^ 1];
                let neighbours = [(flip4(src), dst, sp ^ 1, dp), (src, flip4(dst), sp ^ 1, dp), (flip4(src), dst, sp, dp ^ 1), (src, flip4(dst), sp, dp ^ 1), (flip4(src), flip4(dst), sp, dp), (src, dst, sp ^ 1, dp ^ 1)];
                for (ns, nd, nsp, ndp) in neighbours {
                    let n_s = SocketAddr::V4(SocketAddrV4::new(ns.into(), nsp));
                    let n_d = SocketAddr::V4(SocketAddrV4::new(nd.into(), ndp));
                    // an unrelated pair first, so that whatever is remembered is not this very pair
                    let far = (SocketAddr::V4(SocketAddrV4::new(Ipv4Addr::new(198, 51, 100, 7), 7)), SocketAddr::V4(SocketAddrV4::new(Ipv4Addr::new(203, 0, 113, 9), 9)));
                    let _ = (v1::Addresses::from(far), v2::Addresses::from(far));
                    let _ = (v1::Addresses::from((n_s, n_d)), v2::Addresses::from((n_s, n_d)));
                    acc.eval(4);
                    let ok1 = matches!(v1::Addresses::from((s, d)), v1::Addresses::Tcp4(x) if v4_ok(&x, src, dst, sp, dp));
                    let ok2 = matches!(v2::Addresses::from((s, d)), v2::Addresses::IPv4(x) if v4_ok(&x, src, dst, sp, dp));
                    if !ok1 || !ok2 {
                        bad(acc, "Addresses::from((SocketAddr, SocketAddr)) right after converting a neighbouring pair", format!("v1 ok = {}, v2 ok = {}", ok1, ok2));
                        break;
                    }
                }
            }
            // mixed pairs -> unknown / unspecified
            let d6 = SocketAddr::V6(SocketAddrV6::new(Ipv6Addr::LOCALHOST, dp, 0, 0));
            if v1::Addresses::from((s, d6)) != v1::Addresses::Unknown || v1::Addresses::from((d6, s)) != v1::Addresses::Unknown {
                bad(acc, "v1::Addresses::from(mixed pair)", "not Unknown".into());
            }
            if v2::Addresses::from((s, d6)) != v2::Addresses::Unspecified || v2::Addresses::from((d6, s)) != v2::Addresses::Unspecified {
                bad(acc, "v2::Addresses::from(mixed pair)", "not Unspecified".into());
            }
            // a mixed pair stays mixed even when the V6 side is the IPv4-mapped form of an IPv4 address
            let m6 = SocketAddr::V6(SocketAddrV6::new(Ipv4Addr::from(dst).to_ipv6_mapped(), dp, 0, 0));
            if v1::Addresses::from((s, m6)) != v1::Addresses::Unknown || v1::Addresses::from((m6, s)) != v1::Addresses::Unknown {
                bad(acc, "v1::Addresses::from(V4 / IPv4-mapped V6 pair)", "not Unknown".into());
            }
            if v2::Addresses::from((s, m6)) != v2::Addresses::Unspecified || v2::Addresses::from((m6, s)) != v2::Addresses::Unspecified {
                bad(acc, "v2::Addresses::from(V4 / IPv4-mapped V6 pair)", "not Unspecified".into());
            }
        }
        AV::V6 { src, dst, sport, dport } => {
            let (src, dst, sp, dp) = (*src, *dst, *sport, *dport);
            acc.class("ipv6", "constructed");
            acc.eval(10);
            acc.validated(10);
            let a = v1::IPv6::new(src, dst, sp, dp);
            if !v6_ok(&a, src, dst, sp, dp) {
                bad(acc, "IPv6::new", format!("{:?}", a));
            }
            let b = v2::IPv6::new(Ipv6Addr::from(src), Ipv6Addr::from(dst), sp, dp);
            if !v6_ok(&b, src, dst, sp, dp) {
                bad(acc, "IPv6::new(Ipv6Addr)", format!("{:?}", b));
            }
            match v1::Addresses::new_tcp6(src, dst, sp, dp) {
                v1::Addresses::Tcp6(x) if v6_ok(&x, src, dst, sp, dp) => {}
                other => bad(acc, "v1::Addresses::new_tcp6", format!("{:?}", other)),
            }
            let good = super::values::make_v6(src, dst, sp, dp);
            match v1::Addresses::from(good) {
                v1::Addresses::Tcp6(x) if v6_ok(&x, src, dst, sp, dp) => {}
                other => bad(acc, "v1::Addresses::from(IPv6)", format!("{:?}", other)),
            }
            match v2::Addresses::from(good) {
                v2::Addresses::IPv6(x) if v6_ok(&x, src, dst, sp, dp) => {}
                other => bad(acc, "v2::Addresses::from(IPv6)", format!("{:?}", other)),
            }
            for (flow, scope) in [(0u32, 0u32), (0xabcde, 7), (1, 11), (0, 65535), (u32::MAX, u32::MAX)] {
                let s = SocketAddr::V6(SocketAddrV6::new(src.into(), sp, flow, scope));
                let d = SocketAddr::V6(SocketAddrV6::new(dst.into(), dp, scope, flow));
                match v1::Addresses::from((s, d)) {
                    v1::Addresses::Tcp6(x) if v6_ok(&x, src, dst, sp, dp) => {}
                    other => bad(acc, "v1::Addresses::from((SocketAddr, SocketAddr))", format!("{:?}", other)),
                }
                match v2::Addresses::from((s, d)) {
                    v2::Addresses::IPv6(x) if v6_ok(&x, src, dst, sp, dp) => {}
                    other => bad(acc, "v2::Addresses::from((SocketAddr, SocketAddr))", format!("{:?}", other)),
                }
            }
            // a conversion may not depend on the pair converted just before it: convert each neighbouring pair (two
            // of the four fields changed in their lowest bit) first, then this one
            {
                let flip16 = |a: [u8; 16]| {
                    let mut b = a;
                    b[15] ^= 1;
                    b
                };
                let neighbours = [(flip16(src), dst, sp ^ 1, dp), (src, flip16(dst), sp ^ 1, dp), (flip16(src), dst, sp, dp ^ 1), (src, flip16(dst), sp, dp ^ 1), (flip16(src), flip16(dst), sp, dp), (src, dst, sp ^ 1, dp ^ 1)];
                for (ns, nd, nsp, ndp) in neighbours {
                    let n_s = SocketAddr::V6(SocketAddrV6::new(ns.into(), nsp, 0, 0));
                    let n_d = SocketAddr::V6(SocketAddrV6::new(nd.into(), ndp, 0, 0));
                    let far = (SocketAddr::V6(SocketAddrV6::new(Ipv6Addr::new(0x2001, 0xdb8, 7, 0, 0, 0, 0, 7), 7, 0, 0)), SocketAddr::V6(SocketAddrV6::new(Ipv6Addr::new(0x2001, 0xdb8, 9, 0, 0, 0, 0, 9), 9, 0, 0)));
                    let _ = (v1::Addresses::from(far), v2::Addresses::from(far));
                    let _ = (v1::Addresses::from((n_s, n_d)), v2::Addresses::from((n_s, n_d)));
                    let s0 = SocketAddr::V6(SocketAddrV6::new(src.into(), sp, 0, 0));
                    let d0 = SocketAddr::V6(SocketAddrV6::new(dst.into(), dp, 0, 0));
                    acc.eval(4);
                    let ok1 = matches!(v1::Addresses::from((s0, d0)), v1::Addresses::Tcp6(x) if v6_ok(&x, src, dst, sp, dp));
                    let ok2 = matches!(v2::Addresses::from((s0, d0)), v2::Addresses::IPv6(x) if v6_ok(&x, src, dst, sp, dp));
                    if !ok1 || !ok2 {
                        bad(acc, "Addresses::from((SocketAddr, SocketAddr)) right after converting a neighbouring pair", format!("v1 ok = {}, v2 ok = {}", ok1, ok2));
                        break;
                    }
                }
            }
            let s = SocketAddr::V6(SocketAddrV6::new(src.into(), sp, 0, 0));
            let d4 = SocketAddr::V4(SocketAddrV4::new(Ipv4Addr::LOCALHOST, dp));
            if v1::Addresses::from((s, d4)) != v1::Addresses::Unknown || v1::Addresses::from((d4, s)) != v1::Addresses::Unknown {
                bad(acc, "v1::Addresses::from(mixed pair)", "not Unknown".into());
            }
            if v2::Addresses::from((s, d4)) != v2::Addresses::Unspecified || v2::Addresses::from((d4, s)) != v2::Addresses::Unspecified {
                bad(acc, "v2::Addresses::from(mixed pair)", "not Unspecified".into());
            }
        }
        AV::Unix { src, dst } => {
            acc.class("unix", "constructed");
            acc.eval(2);
            acc.validated(2);
            let u = v2::Unix::new(*src, *dst);
            if u.source != *src || u.destination != *dst {
                bad(acc, "Unix::new", format!("source {} destination {}", hex(&u.source[..8]), hex(&u.destination[..8])));
            }
            match v2::Addresses::from(super::values::make_unix(*src, *dst)) {
                v2::Addresses::Unix(x) if x.source == *src && x.destination == *dst => {}
                other => bad(acc, "v2::Addresses::from(Unix)", format!("{:?}", other.address_family())),
            }
        }
    }
}

pub fn run(run: &Run) {
    run.explore(&AddrValues { per_group: true, with_unix: true });
}
