//! C03 — parsing, accessors and iteration never panic or hang on any input.

use super::common::*;
use crate::engine::*;
use crate::universe::v2 as u2;
use ppp::{v1, v2, HeaderResult, PartialResult};

pub fn def() -> PropDef {
    PropDef {
        id: "C03",
        title: "Parsing, accessors and iteration never panic or hang on any input",
        judge,
        run,
        shrink: Shrink::Bytes,
        render: render_seq_or_bytes,
        rule: "the union of all parser universes (v1 slot / byte / length / UTF-8, UX, U2-ctl, U2-len, U2-sig, U2-addr, U2-byte, TLV byte / structured sections raw and embedded) goes through all four parse entry points (text ones on valid UTF-8 only) plus FromStr, and on every Ok value through every accessor, formatter, owned-copy conversion and a full drain of tlvs(); every case is also iterated as a raw TLV section; under catch_unwind with a watchdog; run in two build configurations (overflow checks + debug assertions on, and off); non-trivial = some entry point returned Ok or the case is a TLV section with >= 1 item; distinct = hash of the input (first 80 bytes + length for long inputs)",
        assumptions: &[
            "hang detection is a timeout (a worker stuck on one case beyond the hang limit) plus an explicit step cap of n/3+2 next() calls on TLV iteration; it cannot distinguish very slow from infinite",
            "two build configurations of a 64-bit target are run; 32-bit targets are not",
        ],
    }
}

fn use_v1(h: &v1::Header) -> usize {
    let o = h.to_owned();
    h.protocol().len() + h.addresses_str().len() + h.to_string().len() + format!("{:?}", h).len() + o.protocol().len() + o.addresses_str().len() + o.to_string().len() + h.addresses.to_string().len() + h.clone().header.len()
}

fn use_tlvs(mut it: v2::TypeLengthValues, n: usize) -> Result<usize, String> {
    let cap = n / 3 + 1;
    let mut items = 0usize;
    let mut sum = it.len() as usize + it.is_empty() as usize + it.as_bytes().len();
    // the provided Iterator methods on copies of the cursor (it is Copy): they must not panic or run away either
    sum += it.size_hint().0;
    sum += it.take(cap + 2).count();
    sum += it.take(cap + 2).collect::<Vec<_>>().len();
    sum += it.take(cap + 2).last().map_or(0, |x| x.is_ok() as usize);
    // positional and searching forms, also repeated on one copy (an overriding `nth` must cope with what it skips)
    for k in 0..=3usize {
        sum += { let mut c = it; c.nth(k).is_some() as usize } + it.skip(k).next().is_some() as usize;
        let mut c = it;
        sum += c.nth(k).is_some() as usize + c.nth(1).is_some() as usize + c.nth(0).is_some() as usize + c.next().is_some() as usize;
    }
    sum += it.step_by(2).take(cap + 2).count() + it.step_by(3).take(cap + 2).count();
    sum += it.take(cap + 2).find(|_| false).is_some() as usize + it.take(cap + 2).position(|_| false).unwrap_or(0);
    sum += it.take(cap + 2).any(|_| false) as usize + it.take(cap + 2).all(|_| true) as usize;
    sum += it.take(cap + 2).filter_map(|x| x.ok()).map(|t| t.len()).max().unwrap_or(0).min(1);
    loop {
        sum += it.size_hint().0.min(1);
        match it.next() {
            None => break,
            Some(Ok(t)) => {
                items += 1;
                sum += t.len() + t.is_empty() as usize;
                if t.len() <= 256 {
                    let o = t.to_owned();
                    sum += o.len() + format!("{:?}", o).len();
                }
            }
            Some(Err(e)) => {
                items += 1;
                sum += e.to_string().len() + e.is_incomplete() as usize;
            }
        }
        if items > cap {
            return Err(format!("more than n/3 + 1 = {} items from a {}-byte section", cap, n));
        }
    }
    for _ in 0..2 {
        sum += it.size_hint().1.unwrap_or(0).min(1);
        if it.next().is_some() {
            return Err("an item after the end".into());
        }
    }
    if n <= 256 {
        sum += format!("{:?}", it).len().min(1) + (it == it.clone()) as usize;
    }
    Ok(sum + items)
}

fn use_v2(h: &v2::Header) -> Result<usize, String> {
    let mut n = h.length() + h.len() + h.is_empty() as usize + h.address_bytes().len() + h.tlv_bytes().len() + h.as_bytes().len();
    n += format!("{}", h).len();
    n += h.addresses.len() + h.addresses.is_empty() as usize + u16::from(h.address_family()) as usize;
    n += (h.version | h.command) as usize + (h.command | h.version) as usize + (h.address_family() | h.protocol) as usize + (h.protocol | h.address_family()) as usize;
    if h.len() <= 4096 {
        n += format!("{:?}", h).len();
        let o = h.to_owned();
        n += o.len() + o.tlv_bytes().len() + format!("{}", o).len();
        n += use_tlvs(o.tlvs(), o.tlv_bytes().len())?;
        n += h.clone().len();
    }
    n += use_tlvs(h.tlvs(), h.tlv_bytes().len())?;
    Ok(n)
}

pub fn key(input: &[u8]) -> u64 {
    if input.len() <= 256 {
        hash64(input)
    } else {
        super::c02::v2_key(input)
    }
}

pub fn judge(case: &[u8], acc: &mut Acc) {
    match decode_seq(case) {
        Some(parts) => {
            history_differential(&parts, acc, &parse_entries());
            judge_history_case(&parts, acc, warm_all, judge_plain)
        }
        None => judge_plain(case, acc),
    }
}

pub fn judge_plain(input: &[u8], acc: &mut Acc) {
    let mut any_ok = false;
    let mut outcome = "no entry point accepts";
    // v1 from bytes
    acc.eval(1);
    match guard(|| v1::Header::try_from(input).map(|h| use_v1(&h)).map_err(|e| (e.to_string().len(), e.is_incomplete()))) {
        Ok(r) => {
            if r.is_ok() {
                any_ok = true;
                outcome = "v1 accepts";
            }
        }
        Err(p) => acc.violation("panic:v1-bytes", "v1::Header::try_from(&[u8]) + accessors", "normal return".into(), p),
    }
    // v1 from text, FromStr
    if let Ok(s) = std::str::from_utf8(input) {
        acc.eval(3);
        match guard(|| v1::Header::try_from(s).map(|h| use_v1(&h)).map_err(|e| (e.to_string().len(), e.is_incomplete()))) {
            Ok(_) => {}
            Err(p) => acc.violation("panic:v1-text", "v1::Header::try_from(&str) + accessors", "normal return".into(), p),
        }
        if input.len() <= 256 {
            match guard(|| (s.parse::<v1::Header<'static>>().map(|h| use_v1(&h)).is_ok(), s.parse::<v1::Addresses>().map(|a| a.to_string().len() + a.protocol().len()).is_ok())) {
                Ok(_) => {}
                Err(p) => acc.violation("panic:v1-fromstr", "str::parse::<Header>() / str::parse::<Addresses>()", "normal return".into(), p),
            }
        }
    }
    // v2
    acc.eval(1);
    match guard(|| v2::Header::try_from(input).map(|h| use_v2(&h)).map_err(|e| (e.to_string().len(), e.is_incomplete()))) {
        Ok(Ok(Ok(_))) => {
            any_ok = true;
            outcome = "v2 accepts";
        }
        Ok(Ok(Err(why))) => acc.violation("tlv-iteration-unbounded", "Header::tlvs()", "at most n/3 + 1 items, then None".into(), why),
        Ok(Err(_)) => {}
        Err(p) => acc.violation("panic:v2", "v2::Header::try_from(&[u8]) + accessors", "normal return".into(), p),
    }
    // auto
    acc.eval(1);
    match guard(|| {
        let r = HeaderResult::parse(input);
        let flags = r.is_complete() as usize + r.is_incomplete() as usize;
        let n = match &r {
            HeaderResult::V1(Ok(h)) => use_v1(h),
            HeaderResult::V2(Ok(h)) => use_v2(h).unwrap_or(0),
            HeaderResult::V1(Err(e)) => e.to_string().len(),
            HeaderResult::V2(Err(e)) => e.to_string().len(),
        };
        flags + n + if input.len() <= 2048 { format!("{:?}", r).len().min(1) } else { 0 }
    }) {
        Ok(_) => {}
        Err(p) => acc.violation("panic:auto", "HeaderResult::parse + accessors", "normal return".into(), p),
    }
    // the case as a raw TLV section
    acc.eval(1);
    match guard(|| use_tlvs(v2::TypeLengthValues::from(input), input.len())) {
        Ok(Ok(n)) => {
            if !any_ok && n > input.len() + 2 && input.len() >= 3 {
                outcome = "TLV section with items";
            }
        }
        Ok(Err(why)) => acc.violation("tlv-iteration-unbounded", "TypeLengthValues::from(&[u8])", "at most n/3 + 1 items, then None".into(), why),
        Err(p) => acc.violation("panic:tlv", "TypeLengthValues::from(&[u8]) iteration", "normal return".into(), p),
    }
    acc.validated(1);
    acc.class("returns normally", outcome);
    if any_ok || outcome != "no entry point accepts" {
        acc.nontrivial_key(key(input));
    }
}

pub fn run(run: &Run) {
    let b = v1_bounds_derived(run.tier);
    explore_all(run, &v1_universes(&b));
    run.explore(&super::c06::ux_bytes(run.tier.pick(5, 6)));
    run.explore(&super::c06::ux_mixed());
    explore_all(run, &v2_universes(run.tier));
    run.explore(&u2::tlv_byte_universe(run.tier.pick(8, 10)));
    run.explore(&u2::tlv_structured_universe(run.tier == Tier::Thorough));
    run.explore(&super::c11::EmbeddedTlv { n: run.tier.pick(6, 8) });
    run.explore(&super::c11::EmbeddedText { n: run.tier.pick(6, 8) });
    run.explore(&super::c11::EmbeddedStructured::new(false));
    run.explore(&super::c11::NearMaxStructured { span: run.tier.pick(35, 135) });
    explore_all(run, &seq_universes(run.tier, true, true));
}
