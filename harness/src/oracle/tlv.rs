//! The standard type-length-value walk (property C11's statement).

#[derive(Clone, Debug, PartialEq)]
pub enum Item {
    /// type, offset of the value in the section, value length
    Tlv { kind: u8, off: usize, len: usize },
    /// 1 or 2 bytes remain
    Short { remaining: usize },
    /// declared value runs past the end of the section
    Overrun { kind: u8, declared: u16 },
}

/// The expected item sequence; an error item is always last.
pub fn walk(section: &[u8]) -> Vec<Item> {
    let mut out = Vec::new();
    let mut p = 0usize;
    while p < section.len() {
        let rem = section.len() - p;
        if rem < 3 {
            out.push(Item::Short { remaining: rem });
            break;
        }
        let kind = section[p];
        let declared = ((section[p + 1] as u16) << 8) | section[p + 2] as u16;
        if 3 + declared as usize > rem {
            out.push(Item::Overrun { kind, declared });
            break;
        }
        out.push(Item::Tlv {
            kind,
            off: p + 3,
            len: declared as usize,
        });
        p += 3 + declared as usize;
    }
    out
}

pub fn well_formed(section: &[u8]) -> bool {
    walk(section).iter().all(|i| matches!(i, Item::Tlv { .. }))
}
