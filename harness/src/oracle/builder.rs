//! Abstract model of `v2::Builder` written from the statements of C09 and C10: the output is the
//! signature, the control bytes, the length field, the construction-time address block and the
//! encodings of the payloads in call order; capacity hints and batching are invisible.

use super::enc;

/// Largest buffer size at which the implementation's writer still accepts a write (16 + 65535).
pub const WRITER_LIMIT: usize = 16 + 65535;

#[derive(Clone, Debug)]
pub struct Model {
    pub vc: u8,
    pub afp: u8,
    pub block: Vec<u8>,
    pub explicit: Option<u16>,
    pub payload: Vec<u8>,
}

#[derive(Clone, Debug, PartialEq)]
pub enum Predict {
    MustFail,
    MustSucceed,
    /// The properties do not say (a write attempted when the buffer already holds more than 16 + 65535 bytes).
    Unspecified,
}

/// What one abstract operation does.
#[derive(Clone, Debug)]
pub enum Effect {
    /// appends these bytes (a batch is the concatenation of its items)
    Append(Vec<u8>),
    /// a value too large for a 16-bit length: must be refused
    Oversized,
    /// a batch whose item `at` is oversized: the call must be refused
    SetLength(Option<u16>),
    Reserve,
}

impl Model {
    pub fn new(vc: u8, afp: u8, block: Vec<u8>) -> Model {
        Model { vc, afp, block, explicit: None, payload: Vec::new() }
    }

    pub fn buffer_len(&self) -> usize {
        16 + self.block.len() + self.payload.len()
    }

    /// Prediction for applying `e`; on (possible) success the model advances.
    pub fn apply(&mut self, e: &Effect) -> Predict {
        match e {
            Effect::Reserve => Predict::MustSucceed,
            Effect::SetLength(l) => {
                self.explicit = *l;
                Predict::MustSucceed
            }
            Effect::Oversized => Predict::MustFail,
            Effect::Append(bytes) => {
                let p = if self.buffer_len() <= WRITER_LIMIT { Predict::MustSucceed } else { Predict::Unspecified };
                self.payload.extend_from_slice(bytes);
                p
            }
        }
    }

    /// Expected result of `build` in this state: Some(bytes) or None (must fail).
    pub fn build(&self) -> Option<Vec<u8>> {
        let following = self.block.len() + self.payload.len();
        let length = match self.explicit {
            Some(l) => l,
            None => {
                if following > 65535 {
                    return None;
                }
                following as u16
            }
        };
        let mut body = Vec::with_capacity(following);
        body.extend_from_slice(&self.block);
        body.extend_from_slice(&self.payload);
        Some(enc::header(self.vc, self.afp, length, &body))
    }
}
