//! Reference models, written from the property statements and the HAProxy PROXY protocol specification.
//! They share no code with `ppp` and do not use `std::net` / `str::parse` for grammar decisions.
pub mod builder;
pub mod enc;
pub mod ip;
pub mod tlv;
pub mod utf8;
pub mod v1;
pub mod v2;
