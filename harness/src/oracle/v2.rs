//! Table-driven reference verdict for PROXY protocol v2 headers (property C02 / C12 / C17 statements).

pub const SIG: [u8; 12] = [0x0D, 0x0A, 0x0D, 0x0A, 0x00, 0x0D, 0x0A, 0x51, 0x55, 0x49, 0x54, 0x0A];

/// Address block size per family nibble 0..=3.
pub const FAMILY_SIZE: [usize; 4] = [0, 12, 36, 216];

#[derive(Copy, Clone, Debug, PartialEq)]
pub struct Accept {
    /// 0 = LOCAL, 1 = PROXY
    pub command: u8,
    /// 0 = unspecified, 1 = IPv4, 2 = IPv6, 3 = Unix
    pub family: u8,
    /// 0 = unspecified, 1 = stream, 2 = datagram
    pub transport: u8,
    pub length: usize,
}

#[derive(Copy, Clone, Debug, PartialEq)]
pub enum Verdict {
    Accept(Accept),
    /// Fewer than 16 bytes, all of them consistent with the signature: count of bytes supplied.
    Incomplete(usize),
    Signature,
    Version(u8),
    Command(u8),
    Family(u8),
    Transport(u8),
    TooSmall(usize, usize),
    /// payload bytes present, declared payload length
    Partial(usize, usize),
}

impl Verdict {
    pub fn name(&self) -> &'static str {
        match self {
            Verdict::Accept(_) => "accept",
            Verdict::Incomplete(_) => "incomplete",
            Verdict::Signature => "signature",
            Verdict::Version(_) => "version",
            Verdict::Command(_) => "command",
            Verdict::Family(_) => "family",
            Verdict::Transport(_) => "transport",
            Verdict::TooSmall(..) => "too-small",
            Verdict::Partial(..) => "partial",
        }
    }
    pub fn is_incomplete(&self) -> bool {
        matches!(self, Verdict::Incomplete(_) | Verdict::Partial(..))
    }
}

/// Number of distinct defects in the fixed part (used to decide whether the *kind* of rejection is
/// determined by the property statements: it is when exactly one thing is wrong).
pub fn defects(input: &[u8]) -> usize {
    if input.len() < 16 {
        return 0;
    }
    let mut n = 0;
    if input[..12] != SIG {
        n += 1;
    }
    if input[12] >> 4 != 2 {
        n += 1;
    }
    if input[12] & 0x0f > 1 {
        n += 1;
    }
    let fam = input[13] >> 4;
    if fam > 3 {
        n += 1;
    }
    if input[13] & 0x0f > 2 {
        n += 1;
    }
    let len = ((input[14] as usize) << 8) | input[15] as usize;
    if fam <= 3 && len < FAMILY_SIZE[fam as usize] {
        n += 1;
    }
    n
}

/// Verdict in the order signature, version, command, family, transport, length, presence.  When more
/// than one element is wrong only accept / reject is compared by the checks, never the kind.
pub fn verdict(input: &[u8]) -> Verdict {
    let n = input.len();
    if n < 12 {
        return if SIG[..n] == *input {
            Verdict::Incomplete(n)
        } else {
            Verdict::Signature
        };
    }
    if input[..12] != SIG {
        return Verdict::Signature;
    }
    if n < 16 {
        return Verdict::Incomplete(n);
    }
    if input[12] >> 4 != 2 {
        return Verdict::Version(input[12] & 0xf0);
    }
    let command = input[12] & 0x0f;
    if command > 1 {
        return Verdict::Command(command);
    }
    let family = input[13] >> 4;
    if family > 3 {
        return Verdict::Family(input[13] & 0xf0);
    }
    let transport = input[13] & 0x0f;
    if transport > 2 {
        return Verdict::Transport(transport);
    }
    let length = ((input[14] as usize) << 8) | input[15] as usize;
    let size = FAMILY_SIZE[family as usize];
    if length < size {
        return Verdict::TooSmall(length, size);
    }
    if n < 16 + length {
        return Verdict::Partial(n - 16, length);
    }
    Verdict::Accept(Accept {
        command,
        family,
        transport,
        length,
    })
}

pub fn be16(b: &[u8]) -> u16 {
    ((b[0] as u16) << 8) | b[1] as u16
}
