//! Hand-written recognisers / decoders for the textual address and port forms named by property C01.

/// Dotted quad: exactly four decimal fields 0-255, 1-3 digits each, no leading zero, nothing else.
pub fn parse_ipv4(s: &[u8]) -> Option<[u8; 4]> {
    let mut out = [0u8; 4];
    let mut n = 0;
    for part in s.split(|&b| b == b'.') {
        if n == 4 {
            return None;
        }
        if part.is_empty() || part.len() > 3 {
            return None;
        }
        if part.len() > 1 && part[0] == b'0' {
            return None;
        }
        let mut v: u32 = 0;
        for &d in part {
            if !d.is_ascii_digit() {
                return None;
            }
            v = v * 10 + (d - b'0') as u32;
        }
        if v > 255 {
            return None;
        }
        out[n] = v as u8;
        n += 1;
    }
    (n == 4).then_some(out)
}

fn hex_group(g: &[u8]) -> Option<u16> {
    if g.is_empty() || g.len() > 4 {
        return None;
    }
    let mut v: u32 = 0;
    for &c in g {
        let d = match c {
            b'0'..=b'9' => c - b'0',
            b'a'..=b'f' => c - b'a' + 10,
            b'A'..=b'F' => c - b'A' + 10,
            _ => return None,
        };
        v = v * 16 + d as u32;
    }
    Some(v as u16)
}

/// Groups separated by single ':'; if `allow_v4_tail`, the last one may be a dotted quad (two groups).
fn groups(s: &[u8], allow_v4_tail: bool) -> Option<Vec<u16>> {
    let mut out = Vec::new();
    if s.is_empty() {
        return Some(out);
    }
    let parts: Vec<&[u8]> = s.split(|&b| b == b':').collect();
    for (i, p) in parts.iter().enumerate() {
        let last = i + 1 == parts.len();
        if last && allow_v4_tail && p.contains(&b'.') {
            let q = parse_ipv4(p)?;
            out.push(((q[0] as u16) << 8) | q[1] as u16);
            out.push(((q[2] as u16) << 8) | q[3] as u16);
        } else {
            out.push(hex_group(p)?);
        }
    }
    Some(out)
}

/// RFC 4291 section 2.2 text: eight groups of 1-4 hex digits, at most one `::` standing for one or more
/// zero groups, optionally a trailing dotted quad in place of the last two groups.
pub fn parse_ipv6(s: &[u8]) -> Option<[u16; 8]> {
    let dc = s.windows(2).position(|w| w == b"::");
    let mut out = [0u16; 8];
    match dc {
        None => {
            let g = groups(s, true)?;
            if g.len() != 8 {
                return None;
            }
            out.copy_from_slice(&g);
            Some(out)
        }
        Some(p) => {
            let left = &s[..p];
            let right = &s[p + 2..];
            if right.first() == Some(&b':') || right.windows(2).any(|w| w == b"::") {
                return None;
            }
            let l = groups(left, false)?;
            let r = groups(right, true)?;
            if l.len() + r.len() > 7 {
                return None;
            }
            out[..l.len()].copy_from_slice(&l);
            out[8 - r.len()..].copy_from_slice(&r);
            Some(out)
        }
    }
}

/// Plain decimal 0-65535: no sign, no leading zero.
pub fn parse_port(s: &[u8]) -> Option<u16> {
    if s.is_empty() || s.len() > 5 {
        return None;
    }
    if s.len() > 1 && s[0] == b'0' {
        return None;
    }
    let mut v: u32 = 0;
    for &d in s {
        if !d.is_ascii_digit() {
            return None;
        }
        v = v * 10 + (d - b'0') as u32;
    }
    (v <= 65535).then_some(v as u16)
}

pub fn v6_octets(g: [u16; 8]) -> [u8; 16] {
    let mut o = [0u8; 16];
    for i in 0..8 {
        o[2 * i] = (g[i] >> 8) as u8;
        o[2 * i + 1] = g[i] as u8;
    }
    o
}

/// Compare the recognisers with std on a token list.  Returns the disagreements other than the one
/// permitted (std's integer parser accepts a leading '+').
pub fn self_check(addr_tokens: &[&[u8]], port_tokens: &[&[u8]]) -> Vec<String> {
    use std::net::{Ipv4Addr, Ipv6Addr};
    let mut bad = Vec::new();
    for t in addr_tokens {
        let as_str = std::str::from_utf8(t).ok();
        let std4 = as_str.and_then(|s| s.parse::<Ipv4Addr>().ok()).map(|a| a.octets());
        let std6 = as_str.and_then(|s| s.parse::<Ipv6Addr>().ok()).map(|a| a.octets());
        if std4 != parse_ipv4(t) {
            bad.push(format!("ipv4 {:?}: std={:?} oracle={:?}", crate::engine::escape(t), std4, parse_ipv4(t)));
        }
        let mine6 = parse_ipv6(t).map(v6_octets);
        if std6 != mine6 {
            bad.push(format!("ipv6 {:?}: std={:?} oracle={:?}", crate::engine::escape(t), std6, mine6));
        }
    }
    for t in port_tokens {
        let as_str = std::str::from_utf8(t).ok();
        let stdp = as_str.and_then(|s| s.parse::<u16>().ok());
        let stdp_adj = if t.first() == Some(&b'+') { None } else { stdp };
        let stdp_adj = if t.len() > 1 && t[0] == b'0' { None } else { stdp_adj };
        // std accepts any number of leading zeros and digits; the grammar caps at 5 digits without leading zero
        if stdp_adj != parse_port(t) {
            bad.push(format!("port {:?}: std={:?} oracle={:?}", crate::engine::escape(t), stdp, parse_port(t)));
        }
    }
    bad
}
