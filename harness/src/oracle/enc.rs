//! Wire encoders written from the PROXY protocol v2 specification text.

use super::v2::SIG;

/// Registered TLV type codes (spec section 2.2): PP2_TYPE_*.
pub const PP2_TYPE_ALPN: u8 = 0x01;
pub const PP2_TYPE_AUTHORITY: u8 = 0x02;
pub const PP2_TYPE_CRC32C: u8 = 0x03;
pub const PP2_TYPE_NOOP: u8 = 0x04;
pub const PP2_TYPE_UNIQUE_ID: u8 = 0x05;
pub const PP2_TYPE_SSL: u8 = 0x20;
pub const PP2_SUBTYPE_SSL_VERSION: u8 = 0x21;
pub const PP2_SUBTYPE_SSL_CN: u8 = 0x22;
pub const PP2_SUBTYPE_SSL_CIPHER: u8 = 0x23;
pub const PP2_SUBTYPE_SSL_SIG_ALG: u8 = 0x24;
pub const PP2_SUBTYPE_SSL_KEY_ALG: u8 = 0x25;
pub const PP2_TYPE_NETNS: u8 = 0x30;

pub fn be16(v: u16) -> [u8; 2] {
    [(v >> 8) as u8, v as u8]
}

/// signature ‖ version/command ‖ family/transport ‖ be16(length) ‖ payload
pub fn header(vc: u8, afp: u8, length: u16, payload: &[u8]) -> Vec<u8> {
    let mut out = Vec::with_capacity(16 + payload.len());
    out.extend_from_slice(&SIG);
    out.push(vc);
    out.push(afp);
    out.extend_from_slice(&be16(length));
    out.extend_from_slice(payload);
    out
}

pub fn ipv4_block(src: [u8; 4], dst: [u8; 4], sport: u16, dport: u16) -> Vec<u8> {
    let mut out = Vec::with_capacity(12);
    out.extend_from_slice(&src);
    out.extend_from_slice(&dst);
    out.extend_from_slice(&be16(sport));
    out.extend_from_slice(&be16(dport));
    out
}

pub fn ipv6_block(src: [u8; 16], dst: [u8; 16], sport: u16, dport: u16) -> Vec<u8> {
    let mut out = Vec::with_capacity(36);
    out.extend_from_slice(&src);
    out.extend_from_slice(&dst);
    out.extend_from_slice(&be16(sport));
    out.extend_from_slice(&be16(dport));
    out
}

pub fn unix_block(src: &[u8; 108], dst: &[u8; 108]) -> Vec<u8> {
    let mut out = Vec::with_capacity(216);
    out.extend_from_slice(src);
    out.extend_from_slice(dst);
    out
}

/// type ‖ be16(len) ‖ value; None if the value does not fit a 16-bit length.
pub fn tlv(kind: u8, value: &[u8]) -> Option<Vec<u8>> {
    if value.len() > 65535 {
        return None;
    }
    let mut out = Vec::with_capacity(3 + value.len());
    out.push(kind);
    out.extend_from_slice(&be16(value.len() as u16));
    out.extend_from_slice(value);
    Some(out)
}

/// Big-endian at natural width, two's complement for signed values.
pub fn be_unsigned(v: u128, width: usize) -> Vec<u8> {
    (0..width).rev().map(|i| (v >> (8 * i)) as u8).collect()
}
