//! Own UTF-8 well-formedness check (Unicode Standard, table 3-7).

/// Length of the well-formed scalar starting at `b[0]`, or None.
pub fn scalar_len(b: &[u8]) -> Option<usize> {
    let b0 = *b.first()?;
    let cont = |i: usize, lo: u8, hi: u8| b.get(i).map_or(false, |&x| x >= lo && x <= hi);
    match b0 {
        0x00..=0x7f => Some(1),
        0xc2..=0xdf => cont(1, 0x80, 0xbf).then_some(2),
        0xe0 => (cont(1, 0xa0, 0xbf) && cont(2, 0x80, 0xbf)).then_some(3),
        0xe1..=0xec | 0xee..=0xef => (cont(1, 0x80, 0xbf) && cont(2, 0x80, 0xbf)).then_some(3),
        0xed => (cont(1, 0x80, 0x9f) && cont(2, 0x80, 0xbf)).then_some(3),
        0xf0 => (cont(1, 0x90, 0xbf) && cont(2, 0x80, 0xbf) && cont(3, 0x80, 0xbf)).then_some(4),
        0xf1..=0xf3 => (cont(1, 0x80, 0xbf) && cont(2, 0x80, 0xbf) && cont(3, 0x80, 0xbf)).then_some(4),
        0xf4 => (cont(1, 0x80, 0x8f) && cont(2, 0x80, 0xbf) && cont(3, 0x80, 0xbf)).then_some(4),
        _ => None,
    }
}

pub fn is_valid(mut b: &[u8]) -> bool {
    while !b.is_empty() {
        match scalar_len(b) {
            Some(n) => b = &b[n..],
            None => return false,
        }
    }
    true
}

/// Is `i` on a scalar boundary of the (valid UTF-8) string `b`?
pub fn is_boundary(b: &[u8], i: usize) -> bool {
    if i == 0 || i >= b.len() {
        return i <= b.len();
    }
    (b[i] & 0xc0) != 0x80
}
