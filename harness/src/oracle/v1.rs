//! Reference verdict for PROXY protocol v1 lines, written from property C01's statement.

use super::{ip, utf8};

pub const MAX: usize = 107;

#[derive(Copy, Clone, Debug, PartialEq)]
pub enum Proto {
    Tcp4,
    Tcp6,
    Unknown,
}

#[derive(Copy, Clone, Debug, PartialEq)]
pub struct Accept {
    pub proto: Proto,
    /// IPv4 addresses occupy the first four bytes.
    pub src: [u8; 16],
    pub dst: [u8; 16],
    pub sport: u16,
    pub dport: u16,
    /// Length of the line including CRLF.
    pub line_len: usize,
}

#[derive(Copy, Clone, Debug, PartialEq)]
pub enum Verdict {
    Accept(Accept),
    /// The reason is only used for the outcome histogram, never for a verdict.
    Reject(&'static str),
}

pub fn first_cr(input: &[u8]) -> Option<usize> {
    input.iter().position(|&b| b == b'\r')
}

/// C18's precondition: the first CR is followed by at least one byte, or 107 CR-free bytes are present.
pub fn must_be_complete(input: &[u8]) -> bool {
    match first_cr(input) {
        Some(c) => c + 1 < input.len(),
        None => input.len() >= MAX,
    }
}

/// The window the parser is entitled to look at: through the byte after the first CR.
pub fn window(input: &[u8]) -> &[u8] {
    match first_cr(input) {
        Some(c) => &input[..(c + 2).min(input.len())],
        None => input,
    }
}

pub fn verdict(input: &[u8]) -> Verdict {
    let c = match first_cr(input) {
        Some(c) => c,
        None => return Verdict::Reject("no-cr"),
    };
    if c + 1 >= input.len() {
        return Verdict::Reject("cr-last");
    }
    if input[c + 1] != b'\n' {
        return Verdict::Reject("cr-not-lf");
    }
    let line_len = c + 2;
    if line_len > MAX {
        return Verdict::Reject("too-long");
    }
    let body = &input[..c];
    if !utf8::is_valid(body) {
        return Verdict::Reject("bad-utf8");
    }
    let rest = match body.strip_prefix(b"PROXY ") {
        Some(r) => r,
        None => return Verdict::Reject("bad-keyword"),
    };
    let unknown = Accept {
        proto: Proto::Unknown,
        src: [0; 16],
        dst: [0; 16],
        sport: 0,
        dport: 0,
        line_len,
    };
    if rest == b"UNKNOWN" || rest.starts_with(b"UNKNOWN ") {
        return Verdict::Accept(unknown);
    }
    let (proto, fields) = if let Some(f) = rest.strip_prefix(b"TCP4 ") {
        (Proto::Tcp4, f)
    } else if let Some(f) = rest.strip_prefix(b"TCP6 ") {
        (Proto::Tcp6, f)
    } else {
        return Verdict::Reject("bad-proto");
    };
    let parts: Vec<&[u8]> = fields.split(|&b| b == b' ').collect();
    if parts.len() != 4 {
        return Verdict::Reject("bad-field-count");
    }
    let mut src = [0u8; 16];
    let mut dst = [0u8; 16];
    match proto {
        Proto::Tcp4 => {
            match ip::parse_ipv4(parts[0]) {
                Some(a) => src[..4].copy_from_slice(&a),
                None => return Verdict::Reject("bad-src"),
            }
            match ip::parse_ipv4(parts[1]) {
                Some(a) => dst[..4].copy_from_slice(&a),
                None => return Verdict::Reject("bad-dst"),
            }
        }
        _ => {
            match ip::parse_ipv6(parts[0]) {
                Some(a) => src = ip::v6_octets(a),
                None => return Verdict::Reject("bad-src"),
            }
            match ip::parse_ipv6(parts[1]) {
                Some(a) => dst = ip::v6_octets(a),
                None => return Verdict::Reject("bad-dst"),
            }
        }
    }
    let sport = match ip::parse_port(parts[2]) {
        Some(p) => p,
        None => return Verdict::Reject("bad-sport"),
    };
    let dport = match ip::parse_port(parts[3]) {
        Some(p) => p,
        None => return Verdict::Reject("bad-dport"),
    };
    Verdict::Accept(Accept {
        proto,
        src,
        dst,
        sport,
        dport,
        line_len,
    })
}
