//! Universes of PROXY v2 inputs.  The large ones mutate control bytes in place in one per-unit buffer
//! and present sub-slices, so no case is copied.

use super::{ByteUniverse, ListUniverse};
use crate::engine::Universe;
use crate::oracle::v2::{FAMILY_SIZE, SIG};
use serde_json::{json, Value};

pub const BUF: usize = 16 + 65535 + 16;

/// Payload pattern: every position of an address block (up to 216 bytes) carries a different non-zero byte.
#[inline]
pub fn pattern(i: usize) -> u8 {
    ((i * 7 + 13) % 251) as u8 + 1
}

pub fn fresh_buffer() -> Vec<u8> {
    let mut b = vec![0u8; BUF];
    b[..12].copy_from_slice(&SIG);
    for i in 16..BUF {
        b[i] = pattern(i - 16);
    }
    b
}

/// The 24 valid (version|command, family|transport) pairs.
pub fn valid_pairs() -> Vec<(u8, u8)> {
    let mut v = Vec::new();
    for cmd in 0..2u8 {
        for fam in 0..4u8 {
            for tr in 0..3u8 {
                v.push((0x20 | cmd, (fam << 4) | tr));
            }
        }
    }
    v
}

pub const CTL_LENS: [usize; 19] = [0, 1, 11, 12, 13, 35, 36, 37, 215, 216, 217, 255, 256, 257, 511, 512, 4096, 65534, 65535];

/// All 65 536 values of the two control bytes x boundary lengths x bytes-present relations.
pub struct CtlUniverse;

impl Universe for CtlUniverse {
    fn name(&self) -> String {
        "U2-ctl".into()
    }
    fn bound(&self) -> Value {
        json!({"mode": "all 65536 (byte12, byte13) pairs x declared length x bytes present",
               "lengths": CTL_LENS.to_vec(), "present": "16, 16+len-1, 16+len, 16+len+1"})
    }
    fn units(&self) -> usize {
        256
    }
    fn roots(&self) -> u64 {
        1
    }
    fn run_unit(&self, u: usize, f: &mut dyn FnMut(&[u8])) {
        let mut buf = fresh_buffer();
        buf[12] = u as u8;
        for b13 in 0..=255u8 {
            buf[13] = b13;
            for &len in &CTL_LENS {
                buf[14] = (len >> 8) as u8;
                buf[15] = len as u8;
                let mut last = usize::MAX;
                for n in [16, (16 + len).saturating_sub(1).max(16), 16 + len, 16 + len + 1] {
                    if n != last {
                        f(&buf[..n]);
                    }
                    last = n;
                }
            }
        }
    }
}

#[derive(Clone, Copy, PartialEq)]
pub enum Presents {
    /// {16, 16+size-1, 16+size, 16+len-1, 16+len, 16+len+7}
    Boundaries,
    /// Boundaries, plus every count 0..=16+len+1 for len <= limit
    EveryUpTo(usize),
    /// only 16+len and 16+len+7 (accepted headers only), for lengths that are multiples of `stride` or near a boundary
    AcceptedStride(usize),
}

/// The 24 valid control pairs x all 65 536 declared lengths x bytes present.
pub struct LenUniverse {
    pub presents: Presents,
    pub name: &'static str,
}

pub fn near_boundary(len: usize) -> bool {
    const B: [usize; 10] = [0, 12, 36, 216, 255, 256, 4096, 32768, 65280, 65535];
    B.iter().any(|&b| len + 3 >= b && len <= b + 3)
}

impl Universe for LenUniverse {
    fn name(&self) -> String {
        self.name.into()
    }
    fn bound(&self) -> Value {
        let p = match self.presents {
            Presents::Boundaries => "16, 16+size-1, 16+size, 16+len-1, 16+len, 16+len+7".to_string(),
            Presents::EveryUpTo(l) => format!("boundaries for every length; every count 0..=16+len+1 for len <= {}", l),
            Presents::AcceptedStride(s) => format!("16+len and 16+len+7 for len % {} == 0 or within 3 of a boundary", s),
        };
        json!({"mode": "24 valid control pairs x all 65536 declared lengths x bytes present", "present": p})
    }
    fn units(&self) -> usize {
        24 * 256
    }
    fn roots(&self) -> u64 {
        24
    }
    fn run_unit(&self, u: usize, f: &mut dyn FnMut(&[u8])) {
        let pairs = valid_pairs();
        let (vc, afp) = pairs[u / 256];
        let hi = u % 256;
        let size = FAMILY_SIZE[(afp >> 4) as usize];
        let mut buf = fresh_buffer();
        buf[12] = vc;
        buf[13] = afp;
        buf[14] = hi as u8;
        for lo in 0..256usize {
            let len = (hi << 8) | lo;
            buf[15] = lo as u8;
            match self.presents {
                Presents::AcceptedStride(stride) => {
                    if len >= size && (len % stride == 0 || near_boundary(len)) {
                        f(&buf[..16 + len]);
                        f(&buf[..16 + len + 7]);
                    }
                }
                Presents::Boundaries | Presents::EveryUpTo(_) => {
                    let mut ns = [
                        16,
                        (16 + size).saturating_sub(1),
                        16 + size,
                        (16 + len).saturating_sub(1).max(16),
                        16 + len,
                        16 + len + 7,
                    ];
                    ns.sort();
                    let mut last = usize::MAX;
                    for n in ns {
                        if n != last && n <= BUF {
                            f(&buf[..n]);
                        }
                        last = n;
                    }
                    if let Presents::EveryUpTo(limit) = self.presents {
                        if len <= limit {
                            for n in 0..=(16 + len + 1) {
                                f(&buf[..n]);
                            }
                        }
                    }
                }
            }
        }
    }
}

pub fn baseline_headers() -> Vec<Vec<u8>> {
    let mut out = Vec::new();
    // PROXY/STREAM IPv4 with one NOOP TLV
    let mut h = SIG.to_vec();
    h.extend_from_slice(&[0x21, 0x11, 0, 16, 127, 0, 0, 1, 192, 168, 1, 1, 0, 80, 1, 187, 4, 0, 1, 42]);
    out.push(h);
    // LOCAL/UNSPEC empty
    let mut h = SIG.to_vec();
    h.extend_from_slice(&[0x20, 0x00, 0, 0]);
    out.push(h);
    // PROXY/DGRAM IPv6, no TLV
    let mut h = SIG.to_vec();
    h.extend_from_slice(&[0x21, 0x22, 0, 36]);
    h.extend((0..36).map(|i| pattern(i)));
    out.push(h);
    // PROXY/STREAM Unix with a 2-item TLV section
    let mut h = SIG.to_vec();
    h.extend_from_slice(&[0x21, 0x31, 0, 216 + 7]);
    h.extend((0..216).map(|i| pattern(i)));
    h.extend_from_slice(&[1, 0, 1, 5, 4, 0, 0]);
    out.push(h);
    // PROXY/UNSPEC-family with payload
    let mut h = SIG.to_vec();
    h.extend_from_slice(&[0x21, 0x01, 0, 4, 4, 0, 1, 9]);
    out.push(h);
    out
}

/// Every signature byte replaced by every other value; every truncation of a signature-prefixed input.
pub fn sig_universe() -> ListUniverse {
    sig_universe_with(false)
}

/// `all_pairs`: every pair of positions with every pair of wrong values (4.3 million inputs) instead of equal XOR deltas only.
pub fn sig_universe_with(all_pairs: bool) -> ListUniverse {
    let mut cases = Vec::new();
    let full = baseline_headers()[0].clone();
    for i in 0..12 {
        for j in i + 1..12 {
            for d in 1..=255u8 {
                // the same XOR delta on two bytes (cancels in folded comparisons), and the same wrong value on both
                let mut c = full.clone();
                c[i] ^= d;
                c[j] ^= d;
                cases.push(c);
                let mut c = full.clone();
                c[i] = c[i].wrapping_add(d);
                c[j] = c[j].wrapping_sub(d);
                cases.push(c);
                if all_pairs {
                    for e in 1..=255u8 {
                        let mut c = full.clone();
                        c[i] ^= d;
                        c[j] ^= e;
                        cases.push(c);
                    }
                }
            }
        }
    }
    let text = b"PROXY UNKNOWN\r\n".to_vec();
    let base = baseline_headers();
    for i in 0..12 {
        for v in 0..=255u8 {
            if v == SIG[i] {
                continue;
            }
            let mut s = SIG.to_vec();
            s[i] = v;
            cases.push(s.clone());
            for h in &base[..2] {
                let mut c = h.clone();
                c[i] = v;
                cases.push(c);
            }
            let mut c = s.clone();
            c.extend_from_slice(&text);
            cases.push(c);
        }
    }
    for n in 0..16 {
        for h in &base {
            let t = h[..n.min(h.len())].to_vec();
            cases.push(t.clone());
            let mut c = t.clone();
            c.extend_from_slice(&text);
            cases.push(c);
            let mut c = t.clone();
            c.extend_from_slice(&h[..]);
            cases.push(c);
        }
    }
    cases.sort();
    cases.dedup();
    ListUniverse {
        name: "U2-sig".into(),
        what: "each of the 12 signature bytes x 255 wrong values (alone, in two full headers, followed by text); every pair of signature positions x 255 equal XOR deltas and +d/-d (thorough: x every pair of deltas); every truncation 0..15 of 5 headers followed by nothing / text / a header".into(),
        cases,
    }
}

/// Address block contents: all-distinct pattern, and for every byte position p and value in {01,80,FF} only p set.
pub fn addr_universe() -> ListUniverse {
    let mut cases = Vec::new();
    for fam in 1..=3u8 {
        let size = FAMILY_SIZE[fam as usize];
        for (vc, tr) in [(0x21u8, 1u8), (0x20, 2), (0x21, 0)] {
            for extra in [0usize, 5] {
                let head = |payload: &[u8]| {
                    let mut h = SIG.to_vec();
                    h.push(vc);
                    h.push((fam << 4) | tr);
                    h.push((payload.len() >> 8) as u8);
                    h.push(payload.len() as u8);
                    h.extend_from_slice(payload);
                    h
                };
                let mut p: Vec<u8> = (0..size + extra).map(pattern).collect();
                if extra == 5 {
                    p[size..].copy_from_slice(&[4, 0, 2, 0xaa, 0xbb]);
                }
                cases.push(head(&p));
                for pos in 0..size {
                    for v in [0x01u8, 0x80, 0xff] {
                        let mut p = vec![0u8; size + extra];
                        p[pos] = v;
                        if extra == 5 {
                            p[size..].copy_from_slice(&[4, 0, 2, 0xaa, 0xbb]);
                        }
                        cases.push(head(&p));
                    }
                }
            }
        }
    }
    // IPv4 / IPv6 blocks over address classes (unspecified, loopback, broadcast, multicast, private, link-local,
    // IPv4-mapped, documentation): every ordered pair of classes as source and destination
    let c4: Vec<[u8; 4]> = vec![[0, 0, 0, 0], [127, 0, 0, 1], [255, 255, 255, 255], [224, 0, 0, 1], [10, 1, 2, 3], [169, 254, 1, 1], [192, 0, 2, 1]];
    for a in &c4 {
        for bb in &c4 {
            let mut h = SIG.to_vec();
            h.extend_from_slice(&[0x21, 0x11, 0, 12]);
            h.extend_from_slice(a);
            h.extend_from_slice(bb);
            h.extend_from_slice(&[0x30, 0x39, 0x01, 0xbb]);
            cases.push(h);
        }
    }
    let g = |x: [u16; 8]| -> Vec<u8> { x.iter().flat_map(|v| v.to_be_bytes()).collect() };
    let c6: Vec<Vec<u8>> = vec![
        g([0; 8]),
        g([0, 0, 0, 0, 0, 0, 0, 1]),
        g([0, 0, 0, 0, 0, 0xffff, 0xc000, 0x0201]),
        g([0, 0, 0, 0, 0, 0xffff, 0x0a01, 0x0203]),
        g([0, 0, 0, 0, 0, 0, 0xc000, 0x0201]),
        g([0xfe80, 0, 0, 0, 0, 0, 0, 2]),
        g([0xff02, 0, 0, 0, 0, 0, 0, 1]),
        g([0x2001, 0xdb8, 0, 0, 0, 0, 0, 0x1a]),
        g([0xffff; 8]),
        g([0x64, 0xff9b, 0, 0, 0, 0, 0x0102, 0x0304]),
    ];
    for a in &c6 {
        for bb in &c6 {
            for (vc, afp) in [(0x21u8, 0x21u8), (0x20, 0x22)] {
                let mut h = SIG.to_vec();
                h.extend_from_slice(&[vc, afp, 0, 36]);
                h.extend_from_slice(a);
                h.extend_from_slice(bb);
                h.extend_from_slice(&[0xc0, 0x01, 0x00, 0x50]);
                cases.push(h.clone());
                h[15] = 43;
                h.extend_from_slice(&[4, 0, 4, 1, 2, 3, 4]);
                cases.push(h);
            }
        }
    }
    // related endpoints: the destination is the source with one byte changed (each of the 16, and for IPv4 each of the
    // 4), and the same with the roles exchanged: a decoder or shortcut that looks at part of an address only (the low
    // 64 bits, the first word) is wrong exactly when the rest differs
    for a in &c6 {
        for k in 0..16usize {
            let mut d = a.clone();
            d[k] ^= 0x5a;
            for (x, y) in [(a, &d), (&d, a)] {
                let mut h = SIG.to_vec();
                h.extend_from_slice(&[0x21, 0x21, 0, 36]);
                h.extend_from_slice(x);
                h.extend_from_slice(y);
                h.extend_from_slice(&[0x9c, 0x40, 0x9c, 0x41]);
                cases.push(h);
            }
        }
    }
    for a in &c4 {
        for k in 0..4usize {
            let mut d = *a;
            d[k] ^= 0x5a;
            for (x, y) in [(a, &d), (&d, a)] {
                let mut h = SIG.to_vec();
                h.extend_from_slice(&[0x21, 0x11, 0, 12]);
                h.extend_from_slice(x);
                h.extend_from_slice(y);
                h.extend_from_slice(&[0x9c, 0x40, 0x9c, 0x41]);
                cases.push(h);
            }
        }
    }
    // Unix blocks with realistic path shapes: NUL-terminated paths with bytes after the terminator, abstract names, '@' spelling
    let shapes: Vec<Vec<u8>> = vec![b"/var/run/haproxy.sock".to_vec(), b"/a\0/b".to_vec(), b"\0abstract-7f3a".to_vec(), b"@client-7f3a".to_vec(), b"x\0\0y".to_vec(), vec![b'p'; 108], vec![]];
    for a in &shapes {
        for bb in &shapes {
            let mut p = vec![0u8; 216];
            p[..a.len()].copy_from_slice(a);
            p[108..108 + bb.len()].copy_from_slice(bb);
            for (vc, afp) in [(0x21u8, 0x31u8), (0x20, 0x32)] {
                let mut h = SIG.to_vec();
                h.extend_from_slice(&[vc, afp, 0, 216]);
                h.extend_from_slice(&p);
                cases.push(h.clone());
                h[15] = 221;
                h.extend_from_slice(&[4, 0, 2, 0xaa, 0xbb]);
                cases.push(h);
            }
        }
    }
    ListUniverse {
        name: "U2-addr".into(),
        what: "per family: all-distinct block, and single-position blocks (every position x {01,80,FF}), 3 control pairs, with and without a TLV; Unix blocks with path shapes (NUL-terminated with trailing bytes, abstract, @, full length)".into(),
        cases,
    }
}

/// Every byte value 0..=255 substituted at every position of the baseline headers (and of a header with a
/// trailing payload), plus the header cut right after the substituted byte.
pub fn anybyte_universe() -> ListUniverse {
    let mut cases = Vec::new();
    let mut heads = baseline_headers();
    let mut with_tail = heads[0].clone();
    with_tail.extend_from_slice(b"\r\nGET /");
    heads.push(with_tail);
    for h in &heads {
        for i in 0..h.len() {
            for v in 0..=255u8 {
                if v == h[i] {
                    continue;
                }
                let mut c = h.clone();
                c[i] = v;
                cases.push(c.clone());
                if i + 1 < h.len() && i >= 12 {
                    c.truncate(i + 1);
                    cases.push(c);
                }
            }
        }
    }
    cases.sort();
    cases.dedup();
    ListUniverse {
        name: "U2-anybyte".into(),
        what: "every byte value 0..=255 substituted at every position of 6 baseline headers (whole, and cut right after the substituted byte)".into(),
        cases,
    }
}

pub const SIGMA2: &[u8] = &[b'\r', b'\n', 0x00, b'Q', b'P', b' ', 0x21, 0x11, 0x0c, 0xff, 0x01];

pub fn byte_universe(d: usize) -> ByteUniverse {
    let mut stems: Vec<Vec<u8>> = vec![vec![]];
    for h in baseline_headers() {
        for n in 1..=h.len().min(40) {
            let p = h[..n].to_vec();
            if !stems.contains(&p) {
                stems.push(p);
            }
        }
    }
    ByteUniverse {
        name: "U2-byte".into(),
        split: 1,
        stems,
        sigma: SIGMA2.to_vec(),
        d,
    }
}

pub const SIGMA_T: &[u8] = &[0x00, 0x01, 0x02, 0x04, 0xff];

/// Every string over SIGMA_T up to length n, as a TLV section.
pub fn tlv_byte_universe(n: usize) -> ByteUniverse {
    ByteUniverse {
        name: "UT-byte".into(),
        split: 2,
        stems: vec![vec![]],
        sigma: SIGMA_T.to_vec(),
        d: n,
    }
}

pub const SIGMA_TEXT: &[u8] = &[0x00, 0x02, b'a', b'.', b'-'];

/// Every string over SIGMA_TEXT (NUL, 02, a letter, dot, dash) up to length n, as a TLV section.
pub fn tlv_text_universe(n: usize) -> ByteUniverse {
    ByteUniverse {
        name: "UT-byte/text".into(),
        split: 2,
        stems: vec![vec![]],
        sigma: SIGMA_TEXT.to_vec(),
        d: n,
    }
}

/// Well-formed sequences of 1-3 items with value lengths from a boundary menu, cut at every truncation point.
pub fn tlv_structured_universe(thorough: bool) -> ListUniverse {
    let lens: Vec<usize> = if thorough { vec![0, 1, 2, 3, 255, 256, 257, 1000] } else { vec![0, 1, 2, 255, 256, 257] };
    let kinds = [0x01u8, 0x04, 0x20, 0xee, 0x00, 0xff];
    let mut seqs: Vec<Vec<(u8, usize)>> = Vec::new();
    for (i, &a) in lens.iter().enumerate() {
        seqs.push(vec![(kinds[i % kinds.len()], a)]);
        for (j, &b2) in lens.iter().enumerate() {
            seqs.push(vec![(kinds[i % kinds.len()], a), (kinds[(j + 1) % kinds.len()], b2)]);
            for (l, &c) in lens.iter().enumerate() {
                if a + b2 + c <= 600 {
                    seqs.push(vec![(kinds[i % kinds.len()], a), (kinds[(j + 1) % kinds.len()], b2), (kinds[(l + 2) % kinds.len()], c)]);
                }
            }
        }
    }
    let mut cases = Vec::new();
    for s in &seqs {
        let mut sec = Vec::new();
        for (n, &(k, l)) in s.iter().enumerate() {
            sec.push(k);
            sec.push((l >> 8) as u8);
            sec.push(l as u8);
            sec.extend((0..l).map(|i| (i as u8).wrapping_mul(3).wrapping_add(n as u8 + 1)));
        }
        // every truncation point
        for cut in 0..=sec.len() {
            cases.push(sec[..cut].to_vec());
        }
    }
    // single items with the largest lengths, whole and cut near the ends
    for l in [65534usize, 65535] {
        let mut sec = vec![0x05u8, (l >> 8) as u8, l as u8];
        sec.extend((0..l).map(|i| (i % 253) as u8));
        for cut in [0usize, 1, 2, 3, 4, l + 1, l + 2, l + 3] {
            cases.push(sec[..cut.min(sec.len())].to_vec());
        }
        // and followed by a second small item (only fits as a raw section)
        let mut two = sec.clone();
        two.extend_from_slice(&[4, 0, 1, 7]);
        cases.push(two);
    }
    // every type byte with small value lengths: whole, cut by one byte, and followed by an empty item of the same type
    for k in 0..=255u8 {
        for l in 0..4usize {
            let mut sec = vec![k, 0, l as u8];
            sec.extend((0..l).map(|i| k.wrapping_add(i as u8 + 1)));
            cases.push(sec.clone());
            cases.push(sec[..sec.len() - 1].to_vec());
            let mut two = sec.clone();
            two.extend_from_slice(&[k, 0, 0]);
            cases.push(two.clone());
            two.extend_from_slice(&[k ^ 0xff, 0, 1, 9]);
            cases.push(two);
        }
    }
    // one item of every value length 0..=1100 and around 2^15 / 2^16 (carries in the span arithmetic), whole and cut by one
    for l in (0usize..=1100).chain(32765..=32770).chain(65530..=65535) {
        let mut sec = vec![0x05u8, (l >> 8) as u8, l as u8];
        sec.extend((0..l).map(|i| (i as u8).wrapping_mul(5).wrapping_add(1)));
        if l <= 1100 || l >= 65530 {
            cases.push(sec[..sec.len() - 1].to_vec());
        }
        sec.extend_from_slice(&[4, 0, 1, 0x77]);
        cases.push(sec[..sec.len() - 4].to_vec());
        cases.push(sec);
    }
    // mid-size items followed by small ones, and many 1000-byte items (large headers rebuilt item by item)
    for sizes in [&[40000usize, 10, 10][..], &[33000, 1, 1, 1], &[1000; 60]] {
        let mut sec = Vec::new();
        for (i, l) in sizes.iter().enumerate() {
            sec.push((i % 5 + 1) as u8);
            sec.push((l >> 8) as u8);
            sec.push(*l as u8);
            sec.extend((0..*l).map(|j| (j as u8).wrapping_add(i as u8)));
        }
        cases.push(sec);
    }
    // long runs of items (counters, recursion, quadratic behaviour): N items with 0- or 1-byte values
    for n in [254usize, 255, 256, 257, 258, 300, 512, 1000, 4096] {
        for vl in [0usize, 1] {
            let mut sec = Vec::with_capacity(n * (3 + vl));
            for i in 0..n {
                sec.push(((i % 5) + 1) as u8);
                sec.push(0);
                sec.push(vl as u8);
                for _ in 0..vl {
                    sec.push(i as u8);
                }
            }
            cases.push(sec.clone());
            sec.pop();
            cases.push(sec);
        }
    }
    // raw sections beyond a u16 that hold *many* items (only reachable through TypeLengthValues::from): 6554 ten-byte
    // items (65 540 bytes), 25 000 items with 0..=2-byte values, and 24 000 such items followed by an overrun
    {
        let mut sec = Vec::with_capacity(66000);
        for i in 0..6554usize {
            sec.extend_from_slice(&[(i % 200 + 1) as u8, 0, 7]);
            sec.extend((0..7).map(|j| (i + j) as u8));
        }
        cases.push(sec);
        let mut many = Vec::with_capacity(110000);
        for i in 0..25000usize {
            let l = i % 3;
            many.extend_from_slice(&[(i % 251 + 1) as u8, 0, l as u8]);
            many.extend((0..l).map(|j| (i * 3 + j) as u8));
        }
        let cut: usize = (0..24000usize).map(|i| 3 + i % 3).sum();
        let mut over = many[..cut].to_vec();
        over.extend_from_slice(&[0xee, 0x30, 0x39, 1, 2]);
        cases.push(many);
        cases.push(over);
    }
    // runs of 9..=24 items whose value lengths vary from item to item (four length patterns, none periodic in 8 or 16),
    // whole, cut by one byte, and with the last item declaring one byte too many: look-ahead windows, batch
    // validation and per-item caches go wrong at the 9th / 17th item, and only when neighbouring lengths differ
    for n in 9..=24usize {
        for pat in 0..4usize {
            let mut sec = Vec::new();
            for i in 0..n {
                let l = match pat {
                    0 => (i * 7 + 3) % 5,
                    1 => (i * i + 1) % 11,
                    2 => if i % 3 == 0 { 0 } else { i },
                    _ => (n - i) % 6 + (i / 8),
                };
                sec.push(((i * 5 + pat) % 250 + 1) as u8);
                sec.push(0);
                sec.push(l as u8);
                sec.extend((0..l).map(|j| (j as u8).wrapping_mul(9).wrapping_add(i as u8)));
            }
            cases.push(sec.clone());
            cases.push(sec[..sec.len() - 1].to_vec());
            let mut over = sec.clone();
            let last_head = {
                // position of the last item's length byte
                let mut pos = 0usize;
                let mut lastp = 0usize;
                while pos + 3 <= sec.len() {
                    lastp = pos;
                    pos += 3 + (((sec[pos + 1] as usize) << 8) | sec[pos + 2] as usize);
                }
                lastp
            };
            over[last_head + 2] = over[last_head + 2].wrapping_add(1);
            cases.push(over);
        }
    }
    // sections that are protocol artefacts themselves: a complete v2 header (every valid control pair, with its address
    // block, with and without an inner TLV), bare and padded to the 3 + 0x0A0D bytes that make it one well-formed item
    // of type 0x0D (the signature read as a TLV head); the signature alone and cut; a v1 line.  A constructor or view
    // that "recognises" a header where a section is expected shows up here.
    {
        let mut arte: Vec<Vec<u8>> = Vec::new();
        for vc in [0x20u8, 0x21] {
            for fam in 0..4u8 {
                for proto in 0..3u8 {
                    let size = [0usize, 12, 36, 216][fam as usize];
                    for inner in [&[][..], &[4u8, 0, 1, 7][..]] {
                        let mut h = SIG.to_vec();
                        h.push(vc);
                        h.push((fam << 4) | proto);
                        let total = size + inner.len();
                        h.push((total >> 8) as u8);
                        h.push(total as u8);
                        h.extend((0..size).map(pattern));
                        h.extend_from_slice(inner);
                        arte.push(h);
                    }
                }
            }
        }
        for h in baseline_headers() {
            arte.push(h);
        }
        for k in 10..=16usize {
            let mut h = SIG.to_vec();
            h.extend_from_slice(&[0x21, 0x11, 0, 12]);
            h.truncate(k);
            arte.push(h);
        }
        arte.push(b"PROXY TCP4 127.0.0.1 192.168.1.1 80 443\r\n".to_vec());
        arte.push(b"PROXY UNKNOWN\r\n".to_vec());
        for a in arte {
            cases.push(a.clone());
            let mut t = a.clone();
            t.extend_from_slice(&[5, 0, 2, 8, 9]);
            cases.push(t);
            if a.len() >= 3 && a.len() <= 3 + 0x0a0d {
                let mut whole = a.clone();
                let declared = 3 + (((a[1] as usize) << 8) | a[2] as usize);
                if declared >= whole.len() && declared <= 4096 {
                    while whole.len() < declared {
                        whole.push(pattern(whole.len()));
                    }
                    cases.push(whole.clone());
                    whole.extend_from_slice(&[4, 0, 0]);
                    cases.push(whole);
                }
            }
        }
    }
    // the one nested structure of the specification: PP2_TYPE_SSL = client(1) verify(4) followed by sub-TLVs 0x21..=0x25
    let subs: Vec<Vec<u8>> = vec![vec![], vec![0x21, 0, 0], vec![0x21, 0, 2, b'1', b'3'], vec![0x22, 0, 1, b'x'], vec![0x25, 0, 0], vec![0x26, 0, 0], vec![0x21, 0, 9, 1]];
    for a in &subs {
        for bb in &subs {
            for client in [0u8, 1, 7] {
                let mut v = vec![client, 0, 0, 0, 0];
                v.extend_from_slice(a);
                v.extend_from_slice(bb);
                let mut sec = vec![0x20, (v.len() >> 8) as u8, v.len() as u8];
                sec.extend_from_slice(&v);
                cases.push(sec.clone());
                let mut more = vec![0x01, 0, 1, b'h'];
                more.extend_from_slice(&sec);
                more.extend_from_slice(&[0x05, 0, 0]);
                cases.push(more);
            }
        }
    }
    // grid: every type byte x value lengths around every power-of-two-ish boundary x four fills
    for k in 0..=255u8 {
        for l in [4usize, 5, 6, 7, 8, 16, 127, 128, 129, 255, 256, 257] {
            for fill in 0..4u8 {
                let mut sec = vec![k, (l >> 8) as u8, l as u8];
                sec.extend((0..l).map(|i| match fill {
                    0 => 0u8,
                    1 => 0xff,
                    2 => k,
                    _ => (i as u8).wrapping_mul(7).wrapping_add(k),
                }));
                if l <= 8 || fill == 3 {
                    cases.push(sec.clone());
                    sec.extend_from_slice(&[4, 0, 0]);
                    cases.push(sec);
                } else {
                    cases.push(sec);
                }
            }
        }
    }
    cases.sort();
    cases.dedup();
    ListUniverse {
        name: "UT-structured".into(),
        what: "well-formed sequences of 1-3 items (value lengths 0,1,2,255,256,257[,3,1000]) cut at every truncation point; single items of 65534 / 65535 bytes; every type byte 0..=255 x value lengths 0..=3 (whole, cut by one, followed by further items); every type byte x lengths {4..8,16,127,128,129,255,256,257} x fills {00, FF, type byte, pattern}".into(),
        cases,
    }
}
