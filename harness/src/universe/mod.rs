//! Universes: exhaustive, deterministic enumerations of cases.

pub mod v1;
pub mod v2;

use crate::engine::Universe;
use serde_json::{json, Value};

/// Grammar-level tree: one menu per slot, index 0 is the baseline; every combination with at most `k`
/// slots off their baseline is enumerated (iterative deviation bounding transplanted to inputs).
pub struct SlotUniverse {
    pub name: String,
    pub slots: Vec<Vec<Vec<u8>>>,
    pub slot_names: Vec<&'static str>,
    pub k: usize,
    units: Vec<Vec<(usize, usize)>>,
}

impl SlotUniverse {
    pub fn new(name: &str, slot_names: Vec<&'static str>, slots: Vec<Vec<Vec<u8>>>, k: usize) -> Self {
        let mut units: Vec<Vec<(usize, usize)>> = vec![vec![]];
        if k >= 1 {
            for s in 0..slots.len() {
                for c in 1..slots[s].len() {
                    units.push(vec![(s, c)]);
                }
            }
        }
        if k >= 2 {
            for s1 in 0..slots.len() {
                for c1 in 1..slots[s1].len() {
                    for s2 in s1 + 1..slots.len() {
                        for c2 in 1..slots[s2].len() {
                            units.push(vec![(s1, c1), (s2, c2)]);
                        }
                    }
                }
            }
        }
        SlotUniverse {
            name: name.to_string(),
            slots,
            slot_names,
            k,
            units,
        }
    }

    fn emit(&self, choice: &[usize], buf: &mut Vec<u8>, f: &mut dyn FnMut(&[u8])) {
        buf.clear();
        for (s, &c) in choice.iter().enumerate() {
            buf.extend_from_slice(&self.slots[s][c]);
        }
        f(buf);
    }

    fn rec(&self, choice: &mut Vec<usize>, from: usize, remaining: usize, buf: &mut Vec<u8>, f: &mut dyn FnMut(&[u8])) {
        self.emit(choice, buf, f);
        if remaining == 0 {
            return;
        }
        for s in from..self.slots.len() {
            for c in 1..self.slots[s].len() {
                choice[s] = c;
                self.rec(choice, s + 1, remaining - 1, buf, f);
            }
            choice[s] = 0;
        }
    }
}

impl Universe for SlotUniverse {
    fn name(&self) -> String {
        self.name.clone()
    }
    fn bound(&self) -> Value {
        json!({
            "mode": "slot tree: all combinations with at most k slots off baseline",
            "k": self.k,
            "slots": self.slot_names.iter().zip(self.slots.iter()).map(|(n, m)| json!({"slot": n, "menu_size": m.len()})).collect::<Vec<_>>(),
        })
    }
    fn units(&self) -> usize {
        self.units.len()
    }
    fn roots(&self) -> u64 {
        1
    }
    fn run_unit(&self, u: usize, f: &mut dyn FnMut(&[u8])) {
        let fixed = &self.units[u];
        let mut choice = vec![0usize; self.slots.len()];
        for &(s, c) in fixed {
            choice[s] = c;
        }
        let mut buf = Vec::with_capacity(256);
        if fixed.len() < 2 {
            self.emit(&choice, &mut buf, f);
        } else {
            let from = fixed[1].0 + 1;
            self.rec(&mut choice, from, self.k - 2, &mut buf, f);
        }
    }
}

/// Lexical-level tree: every string over `sigma` of length <= d appended to every stem.
pub struct ByteUniverse {
    pub name: String,
    pub stems: Vec<Vec<u8>>,
    pub sigma: Vec<u8>,
    pub d: usize,
    /// number of leading suffix bytes fixed per work unit (1 or 2)
    pub split: usize,
}

impl ByteUniverse {
    fn per(&self) -> usize {
        let n = self.sigma.len();
        if self.d == 0 {
            1
        } else if self.split == 2 && self.d >= 2 {
            n * n
        } else {
            n
        }
    }
    fn dfs(&self, buf: &mut Vec<u8>, depth_left: usize, f: &mut dyn FnMut(&[u8])) {
        f(buf);
        if depth_left == 0 {
            return;
        }
        for &b in &self.sigma {
            buf.push(b);
            self.dfs(buf, depth_left - 1, f);
            buf.pop();
        }
    }
}

impl Universe for ByteUniverse {
    fn name(&self) -> String {
        self.name.clone()
    }
    fn bound(&self) -> Value {
        json!({
            "mode": "byte tree: every string over sigma of length <= d appended to every stem",
            "d": self.d,
            "stems": self.stems.len(),
            "sigma": crate::engine::escape(&self.sigma),
        })
    }
    fn units(&self) -> usize {
        self.stems.len() * self.per()
    }
    fn roots(&self) -> u64 {
        self.stems.len() as u64
    }
    fn run_unit(&self, u: usize, f: &mut dyn FnMut(&[u8])) {
        let n = self.sigma.len();
        let per = self.per();
        let stem = &self.stems[u / per];
        let r = u % per;
        let mut buf = Vec::with_capacity(stem.len() + self.d + 8);
        buf.extend_from_slice(stem);
        if self.d == 0 {
            f(&buf);
            return;
        }
        if per == n * n && self.d >= 2 {
            let (a, b) = (r / n, r % n);
            if a == 0 && b == 0 {
                f(&buf); // the stem itself
            }
            buf.push(self.sigma[a]);
            if b == 0 {
                f(&buf); // stem + one byte
            }
            buf.push(self.sigma[b]);
            self.dfs(&mut buf, self.d - 2, f);
        } else {
            if r == 0 {
                f(&buf);
            }
            buf.push(self.sigma[r]);
            self.dfs(&mut buf, self.d - 1, f);
        }
    }
}

/// An explicit list of cases.
pub struct ListUniverse {
    pub name: String,
    pub what: String,
    pub cases: Vec<Vec<u8>>,
}

const LIST_CHUNK: usize = 64;

impl Universe for ListUniverse {
    fn name(&self) -> String {
        self.name.clone()
    }
    fn bound(&self) -> Value {
        json!({"mode": "explicit list", "what": self.what, "cases": self.cases.len()})
    }
    fn units(&self) -> usize {
        (self.cases.len() + LIST_CHUNK - 1) / LIST_CHUNK
    }
    fn roots(&self) -> u64 {
        1
    }
    fn run_unit(&self, u: usize, f: &mut dyn FnMut(&[u8])) {
        let lo = u * LIST_CHUNK;
        let hi = (lo + LIST_CHUNK).min(self.cases.len());
        for c in &self.cases[lo..hi] {
            f(c);
        }
    }
}
