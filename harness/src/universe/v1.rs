//! Universes of PROXY v1 inputs.

use super::{ByteUniverse, ListUniverse, SlotUniverse};

fn b(s: &str) -> Vec<u8> {
    s.as_bytes().to_vec()
}

/// Address tokens (IPv4 / IPv6, valid and invalid for either family).  None contains SP or CR.
pub fn address_tokens() -> Vec<Vec<u8>> {
    let mut v: Vec<Vec<u8>> = [
        // valid IPv4
        "1.2.3.4", "5.6.7.8", "0.0.0.0", "255.255.255.255", "192.168.100.200", "9.10.99.100",
        // invalid IPv4
        "01.2.3.4", "256.1.1.1", "1.2.3", "1.2.3.4.5", "1.2.3.", "1..3.4", "1.2.3.4x", "-1.2.3.4", "0x1.2.3.4", "1.2.3.0004",
        "+1.2.3.4", "1.2.3.4\n", "1.2.3.+4", "1.+2.3.4", "1.2.3.-4",
        // valid IPv6
        "::", "::1", "1:2:3:4:5:6:7:8", "ffff:ffff:ffff:ffff:ffff:ffff:ffff:ffff", "1:2:3:4:5:6:7::", "::2:3:4:5:6:7:8",
        "::ffff:1.2.3.4", "1:2:3:4:5:6:1.2.3.4", "FFFF::", "a:B::c", "1::8", "0001::", "::1.2.3.4", "1:2::7:8", "0:0:0:0:0:0:0:0",
        "a1:b2:c3:d4:e5:f6:7:8", "0000:0000:0000:0000:0000:ffff:192.168.100.200", "ffff:ffff:ffff:ffff:ffff:ffff:255.255.255.255",
        // invalid IPv6
        "12345::", "1:2:3:4:5:6:7", "1:2:3:4:5:6:7:8:9", "1::2::3", ":::", "::1%1", "[::1]", "1:2:3:4:5:6:7:8::", "::1:2:3:4:5:6:7:8",
        "g::", ":1", "1:", "::+1", "+1::", "1:2:3:4:5:6:7:+8", "::-1", "::01.2.3.4", "1.2.3.4::", "::1.2.3", "1:2:3:4:5:6:7:1.2.3.4", "1:2:3:4:5:6:7:8:", ":1:2:3:4:5:6:7:8", "::1\n",
        // neither
        "", "x", "\n", "\0",
    ]
    .iter()
    .map(|s| b(s))
    .collect();
    v.push("é".as_bytes().to_vec());
    v.push(vec![0xff]);
    v
}

pub fn port_tokens() -> Vec<Vec<u8>> {
    let mut v: Vec<Vec<u8>> = [
        "80", "443", "0", "1", "9", "10", "65535", "65536", "65530", "00", "080", "+80", "+0", "-1", "-0", "", "99999", "100000",
        "99999999999999999999", "8o", "0x50", "80\n", "1e3", "٣",
    ]
    .iter()
    .map(|s| b(s))
    .collect();
    v.push("６".as_bytes().to_vec()); // full-width digit
    v.push(vec![b'8', 0xff]);
    v
}

pub fn keyword_tokens() -> Vec<Vec<u8>> {
    ["PROXY", "PROX", "PROXYY", "proxy", "", "PROXZ", "\0PROXY", "P", "PROXY\n", "QROXY"].iter().map(|s| b(s)).collect()
}

pub fn separator_tokens() -> Vec<Vec<u8>> {
    [" ", "", "  ", "\t", "\r", "\n"].iter().map(|s| b(s)).collect()
}

pub fn protocol_tokens() -> Vec<Vec<u8>> {
    ["TCP4", "TCP6", "UNKNOWN", "TCP", "TCP5", "tcp4", "UNKNOWNX", "UNKN", "", "T", "U", "TCP46", "UNKNOWN\n"].iter().map(|s| b(s)).collect()
}

pub fn terminator_tokens() -> Vec<Vec<u8>> {
    let mut v: Vec<Vec<u8>> = [
        "\r\n", "\n", "\r", "", " \n", " \r\n", "\r\r\n", "\r\0", "\rX", "\n\r\n", "\r ", " ", "\r\n\r\n", "\n\r",
    ]
    .iter()
    .map(|s| b(s))
    .collect();
    v.push("\ré".as_bytes().to_vec());
    v.push(vec![b'\r', 0xc3]);
    v.push("\r€".as_bytes().to_vec());
    v.push("\r😀".as_bytes().to_vec());
    v
}

pub fn trailer_tokens() -> Vec<Vec<u8>> {
    let mut v: Vec<Vec<u8>> = ["", "X", "\r\n", "PROXY UNKNOWN\r\n", "\n", "\0", "0", " 1"].iter().map(|s| b(s)).collect();
    v.push(vec![0xff]);
    v.push(crate::oracle::v2::SIG.to_vec());
    v
}

pub fn unknown_text_tokens() -> Vec<Vec<u8>> {
    let mut v: Vec<Vec<u8>> = [
        "", " ", " a", " a b c d", " a b c d e", " a b c d ", "  ", " \n", " \0", " 1.2.3.4 5.6.7.8 1 2", " a b c d e f g h", "X", "\n",
        " a\tb", " UNKNOWN", " a UNKNOWN b", " TCP4 x", " PROXY", " UNKNOWN\r", "  UNKNOWN UNKNOWN",
    ]
    .iter()
    .map(|s| b(s))
    .collect();
    v.push(" é".as_bytes().to_vec());
    v.push(vec![b' ', 0xff]);
    v.push(vec![b' ', 0xc3]);
    // pad the line `PROXY UNKNOWN<text>\r\n` to 106, 107 and 108 bytes
    for total in [106usize, 107, 108] {
        let mut t = vec![b' '];
        t.resize(total - 15, b'p');
        v.push(t);
    }
    v
}

fn with_first(mut menu: Vec<Vec<u8>>, first: &str) -> Vec<Vec<u8>> {
    let f = first.as_bytes().to_vec();
    menu.retain(|t| *t != f);
    menu.insert(0, f);
    menu
}

pub const TCP_SLOT_NAMES: [&str; 13] = [
    "keyword", "sep1", "protocol", "sep2", "src", "sep3", "dst", "sep4", "sport", "sep5", "dport", "terminator", "trailer",
];

/// Slot grammar of a TCP line with the given baseline tokens.
pub fn tcp_slots(proto: &str, src: &str, dst: &str, sport: &str, dport: &str) -> Vec<Vec<Vec<u8>>> {
    vec![
        keyword_tokens(),
        separator_tokens(),
        with_first(protocol_tokens(), proto),
        separator_tokens(),
        with_first(address_tokens(), src),
        separator_tokens(),
        with_first(address_tokens(), dst),
        separator_tokens(),
        with_first(port_tokens(), sport),
        separator_tokens(),
        with_first(port_tokens(), dport),
        terminator_tokens(),
        trailer_tokens(),
    ]
}

pub fn tcp4_universe(k: usize) -> SlotUniverse {
    SlotUniverse::new("U1-slot/TCP4", TCP_SLOT_NAMES.to_vec(), tcp_slots("TCP4", "1.2.3.4", "5.6.7.8", "80", "443"), k)
}

pub fn tcp6_universe(k: usize) -> SlotUniverse {
    SlotUniverse::new("U1-slot/TCP6", TCP_SLOT_NAMES.to_vec(), tcp_slots("TCP6", "1:2:3:4:5:6:7:8", "::1", "65535", "0"), k)
}

pub fn unknown_universe(k: usize) -> SlotUniverse {
    SlotUniverse::new(
        "U1-slot/UNKNOWN",
        vec!["keyword", "sep1", "protocol", "text", "terminator", "trailer"],
        vec![
            keyword_tokens(),
            separator_tokens(),
            with_first(protocol_tokens(), "UNKNOWN"),
            unknown_text_tokens(),
            terminator_tokens(),
            trailer_tokens(),
        ],
        k,
    )
}

pub fn baselines() -> Vec<Vec<u8>> {
    vec![
        b("PROXY TCP4 1.2.3.4 5.6.7.8 80 443\r\n"),
        b("PROXY TCP6 1:2:3:4:5:6:7:8 ::1 65535 0\r\n"),
        b("PROXY UNKNOWN\r\n"),
        b("PROXY UNKNOWN 1.2.3.4 5.6.7.8 80 443\r\n"),
        b("PROXY TCP4 255.255.255.255 255.255.255.255 65535 65535\r\n"),
        b("PROXY TCP6 ::ffff:1.2.3.4 FFFF:: 0 1\r\n"),
    ]
}

pub const SIGMA1: &[u8] = &[b'P', b' ', b'\r', b'\n', b'0', b'1', b'+', b'.', b':', b'T', b'U', b'x', 0x00, 0xc3, 0xa9, 0xff];

/// Every byte-prefix of every baseline line, plus the empty stem.
pub fn all_stems() -> Vec<Vec<u8>> {
    let mut stems: Vec<Vec<u8>> = vec![vec![]];
    for l in baselines() {
        for n in 1..=l.len() {
            let p = l[..n].to_vec();
            if !stems.contains(&p) {
                stems.push(p);
            }
        }
    }
    stems
}

/// Stems that end at a field boundary (after a separator, or right before the terminator).
pub fn boundary_stems() -> Vec<Vec<u8>> {
    let mut stems: Vec<Vec<u8>> = vec![vec![]];
    for l in baselines() {
        for n in 1..=l.len() {
            let at_boundary = l[n - 1] == b' ' || l[n - 1] == b'\r' || (n < l.len() && (l[n] == b' ' || l[n] == b'\r'));
            if at_boundary {
                let p = l[..n].to_vec();
                if !stems.contains(&p) {
                    stems.push(p);
                }
            }
        }
    }
    stems
}

pub fn byte_universe(name: &str, stems: Vec<Vec<u8>>, d: usize) -> ByteUniverse {
    ByteUniverse {
        name: name.to_string(),
        split: if stems.len() < 64 { 2 } else { 1 },
        stems,
        sigma: SIGMA1.to_vec(),
        d,
    }
}

/// Line lengths on both sides of the 107-byte limit, with every terminator; CR-free inputs; late CRs.
pub fn len_universe() -> ListUniverse {
    let mut cases = Vec::new();
    let terms = terminator_tokens();
    // UNKNOWN lines padded so that `body + CRLF` has every total length 100..=112
    for total in 100usize..=112 {
        for pad in [b'p', b' '] {
            let mut body = b("PROXY UNKNOWN ");
            body.resize(total - 2, pad);
            for t in &terms {
                let mut c = body.clone();
                c.extend_from_slice(t);
                cases.push(c.clone());
                c.extend_from_slice(b"tail");
                cases.push(c);
            }
        }
    }
    // TCP6 worst-case lines with a growing pad inside / after the last field
    let tcp6 = "PROXY TCP6 ffff:ffff:ffff:ffff:ffff:ffff:ffff:ffff ffff:ffff:ffff:ffff:ffff:ffff:ffff:ffff 65535 65535";
    for extra in 0..6 {
        for padc in ["0", " ", "5"] {
            for t in &terms {
                let mut c = b(tcp6);
                for _ in 0..extra {
                    c.extend_from_slice(padc.as_bytes());
                }
                c.extend_from_slice(t);
                cases.push(c);
            }
        }
    }
    // UNKNOWN lines whose total length sits around powers of two and their sums with 107 (narrow-integer arithmetic)
    for total in [120usize, 127, 128, 129, 200, 254, 255, 256, 257, 258, 300, 362, 363, 364, 365, 511, 512, 513, 619, 620, 1024, 4096, 32768, 65535, 65536, 65537, 65643] {
        for pad in [b'p', b' '] {
            let mut c = b("PROXY UNKNOWN ");
            c.resize(total - 2, pad);
            c.extend_from_slice(b"\r\n");
            cases.push(c.clone());
            c.extend_from_slice(b"GET /");
            cases.push(c);
        }
        let mut c = b("PROXY TCP4 1.2.3.4 5.6.7.8 80 443");
        c.resize(total - 2, b'4');
        c.extend_from_slice(b"\r\n");
        cases.push(c);
    }
    // the longest valid TCP6 lines: 45-character addresses (embedded dotted quad) give lines of 100..=107 bytes
    let long6 = ["0000:0000:0000:0000:0000:ffff:192.168.100.200", "ffff:ffff:ffff:ffff:ffff:ffff:255.255.255.255", "ffff:ffff:ffff:ffff:ffff:ffff:ffff:ffff", "1234:5678:9abc:def0:1234:5678:100.100.100.100"];
    for a in long6 {
        for bb in long6 {
            for (sp, dp) in [("65535", "65535"), ("1", "65535"), ("65535", "0"), ("0", "0"), ("10000", "443")] {
                for t in &terms {
                    let mut c = b(&format!("PROXY TCP6 {} {} {} {}", a, bb, sp, dp));
                    c.extend_from_slice(t);
                    cases.push(c.clone());
                    c.extend_from_slice(b"GET /");
                    cases.push(c);
                }
            }
        }
    }
    // TCP4 lines made long by a long (invalid) last field
    for total in 104usize..=110 {
        let mut c = b("PROXY TCP4 1.2.3.4 5.6.7.8 80 4");
        c.resize(total - 2, b'4');
        c.extend_from_slice(b"\r\n");
        cases.push(c);
    }
    // long (garbage) fields: the first CR at every index 40..=106 of a TCP line with one to four fields
    for proto in ["TCP4", "TCP6"] {
        for nfields in 1..=4usize {
            for cr in 40usize..=106 {
                let mut c = b(&format!("PROXY {} ", proto));
                let tail: Vec<&str> = ["5.6.7.8", "80", "443"][..nfields - 1].to_vec();
                let tail_len: usize = tail.iter().map(|t| t.len() + 1).sum();
                if c.len() + tail_len + 1 > cr {
                    continue;
                }
                let fill = cr - c.len() - tail_len;
                c.extend(std::iter::repeat(b'a').take(fill));
                for t in &tail {
                    c.push(b' ');
                    c.extend_from_slice(t.as_bytes());
                }
                for follow in ["\r\n", "\r\nG", "\rX", "\r\nGET / HTTP/1.1\r\n"] {
                    let mut x = c.clone();
                    x.extend_from_slice(follow.as_bytes());
                    cases.push(x);
                }
            }
        }
    }
    // CR-free inputs of 0..=110 and 600 bytes, of three kinds
    for n in (0usize..=110).chain([600]) {
        let mut a = b("PROXY UNKNOWN ");
        a.resize(n.max(a.len()), b'x');
        a.truncate(n);
        cases.push(a);
        cases.push(vec![b'x'; n]);
        let mut t = b("PROXY TCP4 1.2.3.4 5.6.7.8 80 443");
        t.resize(n.max(t.len()), b'9');
        t.truncate(n);
        cases.push(t);
        let mut p = b("PROXY");
        p.resize(n.max(5), b'Y');
        p.truncate(n);
        cases.push(p);
    }
    // first CR at every index 100..=109, followed by nothing, LF, X, LF+tail
    for i in 100usize..=109 {
        for follow in ["", "\n", "X", "\ntail", "\r\n"] {
            let mut c = b("PROXY UNKNOWN ");
            c.resize(i, b'q');
            c.push(b'\r');
            c.extend_from_slice(follow.as_bytes());
            cases.push(c);
            let mut c = vec![b'z'; i];
            c.push(b'\r');
            c.extend_from_slice(follow.as_bytes());
            cases.push(c);
        }
    }
    ListUniverse {
        name: "U1-len".into(),
        what: "line lengths 100..=112 x every terminator; CR-free inputs of 0..=110 and 600 bytes; first CR at index 100..=109".into(),
        cases,
    }
}

/// Multi-byte scalars placed around the first CR and inside fields (for the &str entry points).
pub fn utf_universe(suffix_depth: usize) -> ListUniverse {
    let scalars: [&str; 9] = ["é", "€", "😀", "\u{7f}", "\u{feff}", "\u{a0}", "\u{200b}", "\u{2028}", "\u{85}"];
    let mut cases: Vec<Vec<u8>> = Vec::new();
    let mut stems = all_stems();
    stems.truncate(stems.len()); // all
    let sig: Vec<&[u8]> = vec![b"", b"\n", b"\r", b" ", b"x"];
    for stem in &stems {
        for s in scalars {
            let sb = s.as_bytes();
            // stem ‖ scalar, stem ‖ CR ‖ scalar, stem ‖ CR ‖ x ‖ scalar, stem ‖ scalar ‖ CR LF, stem ‖ CR ‖ scalar ‖ LF
            let mut forms: Vec<Vec<u8>> = Vec::new();
            forms.push([stem.as_slice(), sb].concat());
            forms.push([stem.as_slice(), b"\r", sb].concat());
            forms.push([stem.as_slice(), b"\r", b"x", sb].concat());
            forms.push([stem.as_slice(), sb, b"\r\n"].concat());
            forms.push([stem.as_slice(), b"\r", sb, b"\n"].concat());
            forms.push([stem.as_slice(), sb, b"\r"].concat());
            forms.push([stem.as_slice(), b"\r\n", sb].concat());
            forms.push([sb, stem.as_slice()].concat());
            forms.push([sb, stem.as_slice(), b"\r\n"].concat());
            for f in forms {
                if suffix_depth == 0 {
                    cases.push(f);
                } else {
                    for a in &sig {
                        for bb in &sig {
                            cases.push([f.as_slice(), a, bb].concat());
                        }
                    }
                }
            }
        }
    }
    // scalars inside each field of the baselines (replace one byte of the line by the scalar)
    for l in baselines() {
        for i in 0..l.len() {
            for s in scalars {
                let mut c = l[..i].to_vec();
                c.extend_from_slice(s.as_bytes());
                c.extend_from_slice(&l[i + 1..]);
                cases.push(c);
            }
        }
    }
    // long lines whose 107th/108th byte falls inside a scalar
    for total in 104usize..=110 {
        for s in scalars {
            let mut c = b("PROXY UNKNOWN ");
            c.resize(total, b'u');
            c.extend_from_slice(s.as_bytes());
            cases.push(c.clone());
            c.extend_from_slice(b"\r\n");
            cases.push(c);
        }
    }
    cases.sort();
    cases.dedup();
    ListUniverse {
        name: "U1-utf".into(),
        what: "2-, 3-, 4-byte scalars before / after / two after the first CR after every stem, inside every field, and across the 107-byte limit".into(),
        cases,
    }
}

/// Every byte value 0..=255 substituted for, and inserted before, every position of every baseline line
/// (and appended).  Reaches byte values outside the 16-symbol alphabet at every position.
pub fn anybyte_universe() -> ListUniverse {
    let mut cases: Vec<Vec<u8>> = Vec::new();
    let mut lines = baselines();
    lines.push(b("PROXY UNKNOWN \r\n"));
    lines.push(b("PROXY UNKNOWN a b\r\nX"));
    for l in &lines {
        for i in 0..=l.len() {
            for v in 0..=255u8 {
                if i < l.len() {
                    let mut c = l.clone();
                    c[i] = v;
                    cases.push(c);
                }
                let mut c = l[..i].to_vec();
                c.push(v);
                c.extend_from_slice(&l[i..]);
                cases.push(c);
            }
        }
    }
    // two adjacent arbitrary bytes right before the CR and right after it (a few byte values)
    let few: Vec<u8> = vec![0x00, 0x09, 0x0a, 0x0b, 0x0c, 0x0d, 0x0e, 0x1f, 0x20, 0x7f, 0x80, 0xc2, 0xff];
    for l in &lines {
        if let Some(cr) = l.iter().position(|&x| x == b'\r') {
            for &a in &few {
                for &bb in &few {
                    let mut c = l[..cr].to_vec();
                    c.push(a);
                    c.push(bb);
                    c.extend_from_slice(&l[cr..]);
                    cases.push(c);
                }
            }
        }
    }
    cases.sort();
    cases.dedup();
    ListUniverse {
        name: "U1-anybyte".into(),
        what: "every byte value 0..=255 substituted at and inserted before every position of 8 baseline lines; pairs of control / boundary bytes right before the CR".into(),
        cases,
    }
}
