#!/bin/bash
# ./run_all.sh [quick|thorough]   run every registered check, print one line per property
TIER="${1:-quick}"
cd "$(dirname "$0")"
for p in C01 C02 C03 C04 C05 C06 C07 C08 C09 C10 C11 C12 C13 C14 C15 C16 C17 C18 C19 C20; do
  s=$(date +%s.%N)
  out=$(./check $p $TIER 2>&1); rc=$?
  e=$(date +%s.%N)
  printf "%s rc=%d %.1fs %s\n" $p $rc $(echo "$e - $s" | bc) "$(echo "$out" | grep -a -cE '^VIOLATION') violations, $(echo "$out" | grep -a -cE '^KNOWN-FINDING') known"
done
