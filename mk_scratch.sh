#!/bin/bash
# ./mk_scratch.sh <dir>   create a scratch git worktree of /repo (HEAD) outside /repo and /verif, with a warm target dir
set -e
D="$1"
git -C /repo worktree add --detach "$D" HEAD >/dev/null 2>&1
cp /repo/Cargo.lock "$D/Cargo.lock" 2>/dev/null || true
mkdir -p "$D/target"
cp -r /tmp/target-snapshot/debug "$D/target/debug" 2>/dev/null || cp -r /repo/target/debug "$D/target/debug"
mkdir -p "$D/out"
echo "$D ready"
