#!/usr/bin/env python3
"""Regenerates MANIFEST.json from the table below (kept as a script so the 20 entries stay consistent)."""
import json

TECH = {
 "tree": "bounded exhaustive input-tree exploration (deviation-bounded slot trees + depth-bounded byte trees from every stem) of the real parser against a reference model",
 "bfs": "explicit-state breadth-first search over real Builder objects (states = call histories, deduplicated by the implementation's Debug state) against a reference model",
 "values": "exhaustive enumeration of a structured value universe (single-bit / single-position walks, boundary menus, all zero-run masks) through the real code against a reference model",
}
P = {
 "C01": ("tree", "5.C01", "Every input of the v1 universes (<=k-deviation slot trees from 3 baselines, every byte string up to depth d after every stem, every byte value at every position of 8 baseline lines, length / long-field / UTF-8 lists, and every call history of <=3/4 parses from a 15-input pool in one reused buffer) is parsed by both v1 entry points and compared with an independent grammar oracle: acceptance iff, decoded values, header text.", "reference grammar = my reading of C01; address/port value spaces covered by boundary menus, std's address parsers trusted outside the menus (oracle is compared with std on the menus at start-up)"),
 "C02": ("tree", "5.C02", "All 65536 control-byte pairs x boundary lengths x presence relations, the 24 valid pairs x all 65536 lengths, every one- and two-byte signature corruption, single-position and path-shaped address patterns, structured TLV payloads (every type byte x lengths x fills), call histories of <=5/6 parses and a byte tree are parsed and compared with a table-driven oracle (accept iff, decoded command/transport/family/addresses, header bytes).", "payload bytes beyond the address block assumed not to influence acceptance beyond what U2-byte / TLV universes vary"),
 "C03": ("tree", "5.C03", "The union of all parser and TLV universes is pushed through every public entry point, accessor, formatter, owned-copy conversion and TLV drain under catch_unwind with a hang watchdog and an explicit step cap, in two build configurations (overflow checks and debug assertions on / off).", "hang detection is a timeout plus step caps; 64-bit target only"),
 "C04": ("tree", "5.C04", "Every input the real parsers accept anywhere in the v1 / v2 / mixed universes is re-parsed alone and followed by each of 336 trailers (all single bytes, all pairs over 8 critical bytes, a v1 header, a v2 header, 600 bytes) through v1-bytes, v1-text, v2 and auto-detect; results must be identical and the reported length exact.", "metamorphic oracle, no reference parser needed; trailers longer than 2 bytes are structured"),
 "C05": ("tree", "5.C05", "For every accepted header of the universes every proper prefix is parsed through the version's entry points and auto-detect and must be flagged incomplete; a receiver loop over a growing buffer is simulated literally for all splits into <=3 reads (all 2^(n-1) splits for headers <=16 bytes); the completeness flags are checked on every result.", "v2 headers above 700 bytes use dense head/tail cuts and a stride of 97 in between"),
 "C06": ("tree", "5.C06", "Every string over an 11-byte mixed alphabet up to length 6/7, signature prefixes x v1 prefixes, v1/v2 concatenations and all v1 / v2 universes go through HeaderResult::parse and both dedicated parsers; the auto result must be the documented combination.", "relative to the dedicated parsers by the property's own statement"),
 "C07": ("values", "5.C07", "Both commands x three transports x the address-value universe x fixed TLV lists, one address per family x every raw type byte and every TLV list of length <=2 over 15 type bytes x 6 value lengths (plus length-3/4 lists, totals of exactly 65533..65535 bytes), and one TLV whose value is every string up to length 5/6 over {00,01,02,03,FF,own type,a,.}, are built three ways (write_tlv, write_payload, one write_payloads batch), compared with an independent spec encoder and parsed back.", "TLV values are byte patterns; registered type codes copied from the spec text"),
 "C08": ("values", "5.C08", "Every value of the address universe (6561 IPv4 octet combinations as src and dst, 121 port pairs, all 256 IPv6 zero-run masks x all assignments of 3 group values, bit/byte walks, special shapes) is formatted, checked against the grammar oracle's own decoder and parsed back by all four text entry points; accepted headers format back to their text.", "value spaces covered by structure, std Display/FromStr trusted outside the universe"),
 "C09": ("bfs", "5.C09", "Explicit-state BFS over real Builder objects: every call history up to depth D over a 58-call main alphabet from 7 constructors (depth 3 / 4), a boundary alphabet that crosses 65535/65536/65551 bytes (depth 4 / 6), a limit alphabet with one call per write path (depth 4 / 5) and a 12-call core alphabet (depth 6 / 9), cross-checked against a stateright exploration of the same transition function; in every state build() is compared with the model's length field / must-fail verdict.", "writes attempted beyond the writer's size limit are unspecified by the properties and not asserted"),
 "C10": ("bfs", "5.C10", "The same explicit-state BFS; in every state the built bytes (length field masked) must equal the reference concatenation of construction-time block and payload encodings in call order; reserve_capacity and batching are no-ops of the model.", "encodings from the independent reference encoder; 64-bit usize"),
 "C11": ("tree", "5.C11", "Every string over {00,01,02,04,FF} up to length n, every string over {00,02,a,.,-} up to length 8/10, every truncation of structured 1-3 item sequences (lengths 0,1,2,255,256,257,65534,65535), every type byte x 16 lengths x 4 fills, runs of 254..4096 items and nested SSL values are iterated (next, size_hint, count, fold, for_each, last at every cursor position) raw and embedded in a header of each family, next() driven 3 calls past the end, and compared item by item with the reference walk.", "random longer sections of the quantifier are replaced by structured long ones"),
 "C12": ("tree", "5.C12", "Well-formed v1 lines and v2 headers with exactly one element replaced by every invalid value of its menu (every combination of valid alternatives elsewhere; every signature byte x 255 values; every invalid nibble value x all valid others; every too-small length) must fail terminally with the error kind (and v2 payload) naming that element.", "replacement tokens never contain SP/CR; inner std errors ignored"),
 "C13": ("tree", "5.C13", "Every header the parser accepts in the v2 universes and embedded TLV universes is rebuilt through the real Builder five ways (a write_payloads batch as the first write, raw views, tlvs() section, decoded items, decoded address value) and must reproduce the original bytes.", "lengths between boundaries covered with a stride"),
 "C14": ("tree", "5.C14", "On every accepted header of the v2 universes (every length 0..65535 for all 24 control pairs), borrowed and owned, the view identities (partition, sizes, length accessors, family agreement, big-endian decoding) are evaluated.", "helper methods not named by the statement are advisory only"),
 "C15": ("tree", "5.C15", "On every header accepted in the v1 universes, protocol(), addresses_str() and to_string() are compared with quantities computed from the input bytes, and the re-assembly identity is checked, for borrowed and owned headers from both entry points.", "`between` is computed by the harness from the input"),
 "C16": ("tree", "5.C16", "Every valid-UTF-8 input of the v1 universes goes through the four v1 entry points (same outcome, or an error in all when the window splits a character); every accepted v1/v2 header and decoded TLV is copied with to_owned, compared, and re-compared after the source buffer is overwritten and dropped.", "memory safety of 'static copies is the type system's"),
 "C17": ("tree", "5.C17", "For the 24 valid control pairs x every declared length x presence boundaries, every present count for lengths up to L, and every truncation / re-declared length of structured TLV headers, the Incomplete/Partial counts are compared with the oracle; each Partial is completed with exactly the missing bytes (3 fillers -> Ok) and with one byte fewer (-> Partial(need-1, need)).", "completion exercised for need<=1024, small gaps and boundary lengths"),
 "C18": ("tree", "5.C18", "Every input of the v1 universes satisfying the precondition (first CR followed by a byte, or >=107 CR-free bytes) must yield a complete result through v1-bytes, v1-text and auto-detect.", "which terminal error is C12's business"),
 "C19": ("values", "5.C19", "Every single-bit tuple, every byte value in every byte position, octet/port menus, IPv6 zero-run masks, address classes (link-local, multicast, mapped), Unix single-position and path-shaped values, scope ids and flow labels, and mixed pairs incl. IPv4-mapped go through all constructors and conversions; every field must equal the like-named argument, mixed pairs give Unknown/Unspecified.", "depth-1 exploration of a structured value menu"),
 "C20": ("values", "5.C20", "Every WriteToHeader type x value menu (12 integer types x 6 values, all address values, TLVs/tuples for every type byte, value lengths 0..300 and 65533..65536 [thorough: every 0..65536], small-alphabet values, TLV sections up to length 6/8 and of 64 KiB+, every Type, ordered pairs of TLV writes into one writer) x 8 writer prefills including values that straddle the size limit: appended bytes, return value, to_bytes and clean refusal of oversized values are compared with the reference encoder.", "`below its size limit` read literally: the writer holds fewer than 16+65535 bytes before the write"),
}
checks = []
for pid in sorted(P):
    kind, ref, text, note = P[pid]
    checks.append({
        "property_id": pid,
        "quick_cmd": f"./check {pid} quick",
        "thorough_cmd": f"./check {pid} thorough",
        "evidence_file": f"/verif/evidence/{pid}.json",
        "replay_cmd_template": f"./check {pid} --replay {{path}}",
        "engine": "ppp-mc",
        "level_claimed": {"category": "model_checking", "text": text, "design_ref": f"DESIGN.md section {ref}"},
        "level_note": note,
        "technique": TECH[kind],
    })
m = {
 "version": 1,
 "setup_cmd": "cd /verif/harness && CARGO_NET_OFFLINE=true cargo build --offline --release && CARGO_NET_OFFLINE=true cargo build --offline --profile nocheck && cd /verif/xcheck && CARGO_NET_OFFLINE=true cargo build --offline --release",
 "hooks": {
   "guard": "ppp_verif",
   "enable": "no hooks are needed: every observation goes through the public API (parser results, accessors, Debug of Builder / TypeLengthValues); the harness depends on /repo as a path dependency and cargo rebuilds it from the current working tree",
   "baseline_off_cmd": "cd /repo && cargo test --workspace --no-fail-fast --offline --lib",
   "source_commits": [],
   "add_only": True,
 },
 "engines": [
   {"name": "ppp-xcheck", "path": "/verif/xcheck", "serves_properties": ["C09", "C10"], "kind_free_text": "stateright 0.31 BFS checker over the same real-Builder transition function: independent second explorer whose unique-state count and verdict must equal the hand-rolled BFS (disagreement = machinery error)"},
   {"name": "ppp-mc", "path": "/verif/harness", "serves_properties": sorted(P), "kind_free_text": "Rust harness: deviation/depth-bounded exhaustive input-tree exploration and explicit-state BFS over real objects, against independent reference models; rayon-parallel, deterministic, no sampling"},
 ],
 "checks": checks,
 "not_applicable": [],
 "notes": "All 20 properties are decided by bounded exhaustive exploration of the real code (no sampling; VERIF_SEED only selects which explored cases are printed as samples). loom/shuttle are not used: the crate has no threads, atomics or interior mutability, so a controlled scheduler would explore exactly one interleaving. See DESIGN.md.",
}
json.dump(m, open("/verif/MANIFEST.json", "w"), indent=1)
print("wrote MANIFEST.json with", len(checks), "checks")
