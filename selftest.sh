#!/bin/bash
# ./selftest.sh [tier] [pattern]   run every patch under mutants/ (or seeded/*/patch*.diff with pattern) through try_patch.sh
TIER="${1:-quick}"; PAT="${2:-mutants/*.diff}"
cd /verif
for f in $PAT; do
  echo "=== $f"
  ./try_patch.sh "$f" "$TIER" 2>&1 | grep -a -E "^(suite|C[0-9]+ (FIRES|MACHINERY)|FIRED|SUITE|PATCH|REFUSING)" | cut -c1-400
done
