#!/bin/bash
# ./confirm_seeded.sh <dir-with patchN.diff demoN.rs metaN.json> ...   confirm each seeded change in a scratch worktree:
# the demo passes on the unmodified tree, the patch applies, the pinned suite stays green, the demo fails with the patch.
W=/tmp/confirm-wt
if [ ! -d "$W" ]; then /verif/mk_scratch.sh "$W" >/dev/null; fi
for d in "$@"; do
  for patch in "$(realpath "$d")"/patch*.diff; do
    n=$(basename "$patch" .diff | sed 's/patch//')
    demo="$(dirname "$patch")/demo$n.rs"
    git -C "$W" checkout -- . ; rm -rf "$W/tests"; mkdir -p "$W/tests"; cp "$demo" "$W/tests/seeded_demo.rs"
    a=$(cd "$W" && cargo test --offline --test seeded_demo 2>&1 | grep -E "^test result" | head -1)
    if ! git -C "$W" apply "$patch" 2>/dev/null; then echo "$patch: PATCH-DOES-NOT-APPLY"; continue; fi
    s=$(cd "$W" && cargo test --workspace --no-fail-fast --offline --lib 2>&1 | grep -E "^test result" | head -1)
    b=$(cd "$W" && cargo test --offline --test seeded_demo 2>&1 | grep -E "^test result|error\[|could not compile" | head -1)
    echo "$patch | clean: $a | suite: $s | patched: $b"
  done
done
git -C "$W" checkout -- . ; rm -rf "$W/tests"
