#!/usr/bin/env python3
"""Builds /verif/seeded/<id>/ (patch.diff, demo.rs, meta.json) from seeded-incoming/ plus result logs.
usage: organize_seeded.py <results-log> [<results-log> ...]   (later logs override earlier ones)"""
import json, os, re, shutil, sys, glob, subprocess
fired = {}
for log in sys.argv[1:]:
    cur = None
    for line in open(log, errors='replace'):
        m = re.match(r'=== (\S+)', line)
        if m: cur = m.group(1); continue
        m = re.match(r'FIRED:(.*)', line)
        if m and cur: fired[os.path.basename(os.path.dirname(cur)) + '-' + re.sub(r'\D', '', os.path.basename(cur))] = (m.group(1).split(), log)
confirm = {}
for line in open('/verif/seeded-incoming/CONFIRM.log', errors='replace'):
    m = re.match(r'(\S+/(C\d+)/patch(\d)\.diff) \| clean: (.*?) \| suite: (.*?) \| patched: (.*)', line)
    if m: confirm[f'{m.group(2)}-{m.group(3)}'] = {'demo_on_unmodified_tree': m.group(4).strip(), 'pinned_suite_with_patch': m.group(5).strip(), 'demo_with_patch': m.group(6).strip()}
head = subprocess.run(['git','-C','/repo','rev-parse','--short','HEAD'],capture_output=True,text=True).stdout.strip()
os.makedirs('/verif/seeded', exist_ok=True)
for d in sorted(glob.glob('/verif/seeded-incoming/C[0-9][0-9]')):
    pid = os.path.basename(d)
    for n in ('1','2'):
        sid = f'{pid}-{n}'
        out = f'/verif/seeded/{sid}'
        os.makedirs(out, exist_ok=True)
        shutil.copy(f'{d}/patch{n}.diff', f'{out}/patch.diff')
        shutil.copy(f'{d}/demo{n}.rs', f'{out}/demo.rs')
        orig = f'{d}/orig-808db6c-patch{n}.diff'
        if os.path.exists(orig): shutil.copy(orig, f'{out}/patch-as-delivered-against-808db6c.diff')
        meta = json.load(open(f'{d}/meta{n}.json'))
        f = fired.get(sid, ([], None))
        meta_out = {
            'id': sid,
            'property': pid,
            'summary': meta.get('summary'),
            'needs_to_manifest': meta.get('needs'),
            'origin': 'independent sub-agent given only the property text and a scratch worktree (nothing from /verif)',
            'sub_agent_ran': meta.get('ran'),
            'ported': os.path.exists(orig) and 'delivered against 808db6c; re-expressed on the current HEAD after the fix 289077f restructured Writer (same slip, same demo)' or None,
            'confirmed_by_me': dict(confirm.get(sid, {}), how='confirm_seeded.sh in a scratch worktree: demo dropped into tests/, run on the unmodified tree and with the patch; `cargo test --workspace --no-fail-fast --offline --lib` with the patch'),
            'checks_that_fire': {'tier': 'quick', 'properties': f[0], 'how': 'try_patch.sh: git -C /repo apply, ./check <ID> quick for all 20 properties, git -C /repo checkout -- .', 'repo_head': head},
            'caught_by_target_property': pid in f[0],
        }
        json.dump(meta_out, open(f'{out}/meta.json','w'), indent=1)
print('organized', len(glob.glob('/verif/seeded/*')), 'seeded changes')
