#!/usr/bin/env python3
"""Builds /verif/seeded/<id>/ (patch.diff, demo.rs, meta.json) and /verif/seeded/RESULTS.md from
seeded-incoming/ (round 1) and seeded-incoming2/ (round 2) plus result logs of run_matrix.sh / selftest.sh.
usage: organize_seeded.py <results-log> [<results-log> ...]   (later logs override earlier ones)"""
import json, os, re, shutil, sys, glob, subprocess
def sid_of(path):
    pid = os.path.basename(os.path.dirname(path)); n = re.sub(r'\D', '', os.path.basename(path))
    if 'seeded-incoming9' in path: return f"{pid}-r9-{n}"
    if 'seeded-incoming8' in path: return f"{pid}-r8-{n}"
    if 'seeded-incoming7' in path: return f"{pid}-r7-{n}"
    if 'seeded-incoming6' in path: return f"{pid}-r6-{n}"
    if 'seeded-incoming4' in path: return f"{pid}-r4-{n}"
    if 'seeded-incoming3' in path: return f"{pid}-r3-{n}"
    return f"{pid}-r2-{n}" if 'seeded-incoming2' in path else f"{pid}-{n}"
fired = {}; first = {}; first_run = {}
for log in sys.argv[1:]:
    cur = None
    for line in open(log, errors='replace'):
        m = re.match(r'=== (\S+)', line)
        if m: cur = sid_of(m.group(1)); first.setdefault(cur, {}); continue
        m = re.match(r'(C\d+) FIRES \((\d+) witnesses\): (.*)', line)
        if m and cur: first[cur][m.group(1)] = m.group(3).split(';')[0][:260]
        m = re.match(r'FIRED:(.*)', line)
        if m and cur:
            now = [x for x in m.group(1).split() if x != 'none']
            if '-r6-' in cur or '-r7-' in cur or '-r8-' in cur or '-r9-' in cur:  # later runs of the held-out round re-run single checks only: keep the union
                now = sorted(set(now) | set(fired.get(cur, ([], None))[0]))
            fired[cur] = (now, os.path.basename(log))
            first_run.setdefault(cur, [x for x in m.group(1).split() if x != 'none'])
confirm = {}
for d in ('seeded-incoming', 'seeded-incoming2', 'seeded-incoming3', 'seeded-incoming4', 'seeded-incoming6', 'seeded-incoming7', 'seeded-incoming8', 'seeded-incoming9'):
    p = f'/verif/{d}/CONFIRM.log'
    if not os.path.exists(p): continue
    for line in open(p, errors='replace'):
        m = re.match(r'(\S+/C\d+/patch\d\.diff) \| clean: (.*?) \| suite: (.*?) \| patched: (.*)', line)
        if m: confirm[sid_of(m.group(1))] = {'demo_on_unmodified_tree': m.group(2).strip(), 'pinned_suite_with_patch': m.group(3).strip(), 'demo_with_patch': m.group(4).strip()}
head = subprocess.run(['git','-C','/repo','rev-parse','--short','HEAD'],capture_output=True,text=True).stdout.strip()
os.makedirs('/verif/seeded', exist_ok=True)
rows = []
for rnd, d0 in ((1, 'seeded-incoming'), (2, 'seeded-incoming2'), (3, 'seeded-incoming3'), (4, 'seeded-incoming4'), (6, 'seeded-incoming6'), (7, 'seeded-incoming7'), (8, 'seeded-incoming8'), (9, 'seeded-incoming9')):
    for d in sorted(glob.glob(f'/verif/{d0}/C[0-9][0-9]')):
        pid = os.path.basename(d)
        for n in ('1', '2'):
            src = f'{d}/patch{n}.diff'
            if not os.path.exists(src): continue
            sid = sid_of(src)
            out = f'/verif/seeded/{sid}'
            os.makedirs(out, exist_ok=True)
            shutil.copy(src, f'{out}/patch.diff'); shutil.copy(f'{d}/demo{n}.rs', f'{out}/demo.rs')
            orig = f'{d}/orig-808db6c-patch{n}.diff'
            if os.path.exists(orig): shutil.copy(orig, f'{out}/patch-as-delivered-against-808db6c.diff')
            meta = json.load(open(f'{d}/meta{n}.json'))
            f = fired.get(sid, ([], None))
            json.dump({
                'id': sid, 'property': pid, 'round': rnd,
                'summary': meta.get('summary'), 'needs_to_manifest': meta.get('needs'),
                'origin': 'independent sub-agent given only the property text and a scratch worktree (nothing from /verif)' + (' ; round 2: asked for hard-to-find changes (conjunctions, interior values, call histories, leaked state)' if rnd == 2 else ' ; round 3: asked for regressions framed as optimisations, refactors, hardening or small features' if rnd == 3 else ' ; round 4: asked for something new: less-travelled trait impls and accessors, integer widths, allocation/capacity, evaluation order, equality' if rnd == 4 else ' ; round 6 (held out: written after the harness was frozen at c617b9d, all 20 quick checks run once, no harness change before the first run): asked for one small local slip and one larger well-intentioned edit'  if rnd == 6 else ' ; round 7 (held out again: written after the harness was frozen at a59d84f; told which 20 families of slips earlier rounds had produced and asked for something else -- interplay between functions, trait impls, error variants, LOCAL/UNKNOWN semantics, earlier calls on the same value; first run: the target property and 4-8 neighbouring quick checks)' if rnd == 7 else ' ; round 8 (held out: harness frozen at d253a2c; asked for routine maintenance commits -- clippy fixes, idiom modernisation, de-duplication, std helpers whose edge cases differ from the hand-written code; first run: the target property and 2-4 neighbouring quick checks)' if rnd == 8 else ' ; round 9 (held out: harness frozen at 0ba8bdf; asked for DEEP TRIGGERS -- changes that need long call sequences, sections of many items, state accumulated over items or calls, several distant fields at once, unremarkable mid-range lengths -- i.e. aimed at what lies beyond the explored bounds; first run: the target property only)' if rnd == 9 else ''),
                'sub_agent_ran': meta.get('ran'),
                'ported': (os.path.exists(orig) and 'delivered against 808db6c; re-expressed on the current HEAD after the fix 289077f restructured Writer (same slip, same demo)') or None,
                'confirmed_by_me': dict(confirm.get(sid, {}), how='confirm_seeded.sh in a scratch worktree: demo dropped into tests/, run on the unmodified tree and with the patch; `cargo test --workspace --no-fail-fast --offline --lib` with the patch'),
                'checks_that_fire': {'tier': 'quick', 'properties': f[0], 'first_witness': first.get(sid, {}), 'checks_run': ('all 20 quick checks' if rnd == 6 else 'the target property and the neighbouring checks listed in the first-run log' if rnd in (7, 8) else 'the target property only' if rnd == 9 else 'the target property and every check that fired in earlier runs'), 'how': 'try_patch.sh: git -C /repo apply, ./check <ID> quick, git -C /repo checkout -- .', 'repo_head': head, 'log': f[1]},
                'caught_by_target_property': pid in f[0],
                **({'held_out_first_run': {'properties': first_run.get(sid, []), 'caught_by_target_property': pid in first_run.get(sid, []), 'harness_commit': {6: 'c617b9d', 7: 'a59d84f', 8: 'd253a2c', 9: '0ba8bdf'}[rnd]}} if rnd in (6, 7, 8, 9) else {}),
            }, open(f'{out}/meta.json', 'w'), indent=1)
            rows.append((sid, pid, rnd, (meta.get('summary') or '')[:150].replace('|', '/'), f[0], (meta.get('needs') or '')[:160].replace('|', '/'), first_run.get(sid, []) if rnd in (6, 7, 8, 9) else None))
with open('/verif/seeded/RESULTS.md', 'w') as o:
    o.write('# Seeded changes from independent sub-agents: which quick checks fire\n\n')
    o.write(f'Produced by `run_matrix.sh` against /repo at {head} (each change applied with `git -C /repo apply`, pinned suite re-run, checks run, tree restored). For each change the check of its own property and every check that fired in an earlier run were run.\n\n')
    o.write('Round 6 was held out: its 40 changes were written after the harness had been frozen (commit c617b9d) and all 20 quick checks were run once on each before anything was changed; the last column is that first run. Round 7 was held out in the same way (harness frozen at a59d84f; first run = the target property and 4-8 neighbouring checks), and so was round 8 (harness frozen at d253a2c; target property and 2-4 neighbours) and round 9 (frozen at 0ba8bdf; deliberately aimed beyond the explored bounds; target property only).\n\n')
    o.write('| id | round | what was changed | needs | checks that fire | caught by own property | held-out first run (rounds 6-9) |\n|---|---|---|---|---|---|---|\n')
    for sid, pid, rnd, summ, f, needs, fr in rows:
        o.write(f"| {sid} | {rnd} | {summ} | {needs} | {' '.join(f) or 'none'} | {'yes' if pid in f else '**no**'} | {'' if fr is None else (' '.join(fr) or '**none**') + ('' if pid in fr else ' (own property: **no**)')} |\n")
    tot = len(rows); det = sum(1 for r in rows if r[4]); own = sum(1 for r in rows if r[1] in r[4])
    for rr in (6, 7, 8, 9):
        r6 = [r for r in rows if r[2] == rr]
        o.write(f'\nHeld-out round {rr}, first run: {len(r6)} changes, {sum(1 for r in r6 if r[6])} detected by at least one check that was run, {sum(1 for r in r6 if r[1] in r[6])} by the check of their own property.\n')
    o.write(f'\n{tot} changes, {det} detected by at least one check, {own} by the check of the property they were written against.\n')
print('organized', len(rows), 'seeded changes')
