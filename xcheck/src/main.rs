#![allow(dead_code, unused_imports, unused_variables, unused_mut)]
//! ppp-xcheck <C09|C10> <spec: core|main|boundary> <depth>
//!
//! Explores the builder state space with stateright's BFS checker using the *same* judge as the harness
//! (`props/builder_mc.rs`, included by path) and prints one JSON line with its unique-state count,
//! maximum depth and discoveries.  The harness compares the count with its own BFS.

#[path = "../../harness/src/engine.rs"]
mod engine;
#[path = "../../harness/src/oracle/mod.rs"]
mod oracle;
mod props {
    #[path = "../../../harness/src/props/builder_mc.rs"]
    pub mod builder_mc;
}

use engine::Acc;
use props::builder_mc::{self as mc, Which};
use stateright::{Checker, Model, Property};
use std::hash::{Hash, Hasher};

#[derive(Clone, Debug)]
struct St {
    history: Vec<u8>,
    /// canonical implementation + model state (the same key the harness deduplicates on)
    canon: (u64, u64),
    ok: bool,
}

impl PartialEq for St {
    fn eq(&self, o: &St) -> bool {
        self.canon == o.canon
    }
}
impl Eq for St {}
impl Hash for St {
    fn hash<H: Hasher>(&self, h: &mut H) {
        self.canon.hash(h)
    }
}

struct BuilderModel {
    ctors: Vec<u8>,
    ops: Vec<u8>,
    depth: usize,
    which: Which,
}

fn eval(history: Vec<u8>, which: Which) -> Option<St> {
    let mut acc = Acc::scratch();
    acc.begin(&history);
    let out = mc::judge_history(&history, &mut acc, which);
    acc.end();
    let ok = acc.viol_total == 0;
    match out.key {
        Some(k) => Some(St { history, canon: k, ok }),
        // a refused call ends the history; keep it as a state only if the refusal itself broke the property
        None if !ok => Some(St { canon: (engine::hash64(&history), 0xdead), history, ok }),
        None => None,
    }
}

impl Model for BuilderModel {
    type State = St;
    type Action = u8;

    fn init_states(&self) -> Vec<St> {
        self.ctors.iter().filter_map(|c| eval(vec![*c], self.which)).collect()
    }

    fn actions(&self, s: &St, actions: &mut Vec<u8>) {
        if s.ok && s.history.len() <= self.depth {
            actions.extend_from_slice(&self.ops);
        }
    }

    fn next_state(&self, s: &St, a: u8) -> Option<St> {
        let mut h = s.history.clone();
        h.push(a);
        eval(h, self.which)
    }

    fn properties(&self) -> Vec<Property<Self>> {
        vec![Property::<Self>::always("build() on a replayed copy matches the reference model", |_, s: &St| s.ok)]
    }
}

fn main() {
    let args: Vec<String> = std::env::args().collect();
    if args.len() < 4 {
        eprintln!("usage: ppp-xcheck <C09|C10> <core|main|boundary|limit> <depth>");
        std::process::exit(2);
    }
    engine::install_panic_hook();
    let which = if args[1].eq_ignore_ascii_case("C10") { Which::C10 } else { Which::C09 };
    let (ctors, ops): (Vec<u8>, Vec<u8>) = match args[2].as_str() {
        "core" => (vec![0, 4], mc::CORE_OPS.to_vec()),
        "boundary" => (vec![0, 4, 6], mc::BOUNDARY_OPS.to_vec()),
        "limit" => (vec![0, 4, 6], mc::LIMIT_OPS.to_vec()),
        _ => ((0..mc::ctors().len() as u8).collect(), mc::main_ops()),
    };
    let depth: usize = args[3].parse().unwrap_or(3);
    let t0 = std::time::Instant::now();
    // one thread: stateright's BFS then visits states in non-decreasing depth, like the harness's layered search,
    // so the depth bound cuts the same states in both explorers
    let checker = BuilderModel { ctors, ops, depth, which }.checker().threads(1).spawn_bfs().join();
    let discoveries: Vec<String> = checker
        .discoveries()
        .iter()
        .map(|(name, path)| format!("{}: {:?}", name, path.last_state().history))
        .collect();
    println!(
        "{}",
        serde_json::json!({
            "explorer": "stateright 0.31 spawn_bfs, 1 thread",
            "spec": args[2], "depth": depth,
            "unique_states": checker.unique_state_count(),
            "states_generated": checker.state_count(),
            "max_depth": checker.max_depth(),
            "done": checker.is_done(),
            "discoveries": discoveries,
            "wall_s": t0.elapsed().as_secs_f64(),
        })
    );
}
