#!/usr/bin/env python3
"""Prints the markdown table of measured bounds (DESIGN.md section 14) from evidence directories.
usage: gen_bounds_table.py <quick-evidence-dir> [<thorough-evidence-dir>]"""
import json, sys, glob, os
def load(d):
    out = {}
    for f in sorted(glob.glob(os.path.join(d, 'C*.json'))):
        e = json.load(open(f)); out[e['property_id']] = e
    return out
q = load(sys.argv[1]); t = load(sys.argv[2]) if len(sys.argv) > 2 else {}
def bound_str(u):
    b = u.get('bound', {})
    for k in ('k', 'd', 'depth', 'n'):
        if k in b: return f"{k}={b[k]}"
    return ''
print('| property | tier | states | transitions | executions of real code | distinct non-trivial | wall | universes (bound: states) |')
print('|---|---|---|---|---|---|---|---|')
for pid in sorted(q):
    for tier, ev in (('quick', q), ('thorough', t)):
        if pid not in ev: continue
        c = ev[pid]['coverage']
        us = '; '.join(f"{u['name']} ({bound_str(u)}{': ' if bound_str(u) else ''}{u['states']:,})" for u in c.get('universes', []))
        print(f"| {pid} | {tier} | {c['states']:,} | {c['transitions']:,} | {c.get('evaluations',0):,} | {c.get('distinct_nontrivial',0):,} | {ev[pid]['wall_s']:.0f} s | {us} |")
