#!/bin/bash
# ./try_patch.sh <patch.diff> [tier] [PROP ...]
# Applies a change to /repo's working tree, verifies the pinned suite still passes, runs the checks
# (all 20 by default) and reports which ones raise a violation; always restores /repo afterwards.
PATCH="$(realpath "$1")"; TIER="${2:-quick}"; shift; shift
PROPS="${*:-C01 C02 C03 C04 C05 C06 C07 C08 C09 C10 C11 C12 C13 C14 C15 C16 C17 C18 C19 C20}"
cd /verif
if [ -n "$(git -C /repo status --porcelain --untracked-files=no)" ]; then echo "REFUSING: /repo has uncommitted changes"; exit 2; fi
restore() { git -C /repo checkout -- . ; }
trap restore EXIT
if ! git -C /repo apply "$PATCH"; then echo "PATCH-DOES-NOT-APPLY"; exit 2; fi
T=$( cd /repo && cargo test --workspace --no-fail-fast --offline --lib 2>&1 | grep -E "^test result" | head -1 )
echo "suite: $T"
case "$T" in *"73 passed; 0 failed"*) ;; *) echo "SUITE-NOT-GREEN (not an interesting change)"; exit 3;; esac
FIRED=""
for p in $PROPS; do
  out=$(./check $p $TIER 2>&1); rc=$?
  n=$(echo "$out" | grep -a -c '^VIOLATION')
  if [ $rc -eq 1 ]; then FIRED="$FIRED $p"; echo "$p FIRES ($n witnesses): $(echo "$out" | grep -a '^violation' | head -2 | cut -c1-230 | tr '\n' ';')"; 
  elif [ $rc -ne 0 ]; then echo "$p MACHINERY rc=$rc: $(echo "$out" | grep -a MACHINERY | head -2 | cut -c1-300)"; fi
done
echo "FIRED:${FIRED:- none}"
